package server

// C12: election safety - one winner, newest log, numbers never regress.
//
// Three layers, cheapest first (engine V of DESIGN.md):
//   1. pure laws: CompareAofId, Format/ParseAofId, ArbiterStore Save -> Load            (this file)
//   2. acceptor-level state machine: the real proposal / commit handlers and
//      DoSelfProposal / DoSelfCommit of 3..5 ArbiterManagers driven by a message script   (this file)
//   3. full voter simulation: real ArbiterVoter.DoVote / DoProposal / DoCommit over
//      net.Pipe()-backed ArbiterClients with a harness-owned network                      (c12_voter_test.go)
//
// All cases are plain JSON data (v12Case) executed by rapid-free executors; TestC12_Replay re-runs
// committed / freshly found cases.

import (
	"encoding/hex"
	"errors"
	"fmt"
	"os"
	"path/filepath"
	"sort"
	"strings"
	"sync"
	"sync/atomic"
	"testing"
	"time"

	"github.com/hhkbp2/go-logging"
	"github.com/snower/slock/protocol"
	"github.com/snower/slock/protocol/protobuf"
	"google.golang.org/protobuf/proto"
	"pgregory.net/rapid"
)

const (
	v12KeyRestart   = "C12:restart:acceptor-forgets-accepted-proposal"
	v12KeyTwoWin    = "C12:election:two-commit-majorities"
	v12KeyRegress   = "C12:acceptor:number-regressed"
	v12KeyAcceptor  = "C12:acceptor:handler-precondition"
	v12KeyTwice     = "C12:acceptor:same-number-acknowledged-twice"
	v12KeyNewerLog  = "C12:acceptor:accepted-older-log"
	v12KeyVote      = "C12:vote:wrong-candidate"
	v12KeyCompare   = "C12:CompareAofId:law"
	v12KeyCmpOrder  = "C12:CompareAofId:offset-before-file-index"
	v12KeyFormat    = "C12:AofId:format-parse"
	v12KeyStore     = "C12:ArbiterStore:roundtrip"
	v12KeyHarness   = "C12:harness"
	v12KeyAnnounce  = "C12:restart:announced-commit-not-persisted"
	v12WrapDistance = uint64(0x7fffffff00000000)
)

// ---------------------------------------------------------------------------------------------
// case data

// v12Pos is a log position: aof file index, offset inside the file, time of the last command.
type v12Pos struct {
	Index  uint32 `json:"index"`
	Offset uint32 `json:"offset"`
	Time   uint64 `json:"time"`
}

func (p v12Pos) aid() uint64 { return uint64(p.Index)<<32 | uint64(p.Offset) }

func (p v12Pos) id() [16]byte {
	return [16]byte{byte(p.Offset), byte(p.Offset >> 8), byte(p.Offset >> 16), byte(p.Offset >> 24),
		byte(p.Index), byte(p.Index >> 8), byte(p.Index >> 16), byte(p.Index >> 24),
		byte(p.Time), byte(p.Time >> 8), byte(p.Time >> 16), byte(p.Time >> 24),
		byte(p.Time >> 32), byte(p.Time >> 40), byte(p.Time >> 48), byte(p.Time >> 56)}
}

func (p v12Pos) String() string { return fmt.Sprintf("%d/%d@%d", p.Index, p.Offset, p.Time) }

// v12OffsetMajor probes the comparison function with the canonical pair of the known finding: a log that
// rotated to file 2 (offset 0) against one that is still in file 1 (offset 5).
func v12OffsetMajor(mgr *ArbiterManager) bool {
	return mgr.CompareAofId(v12Pos{Index: 2}.id(), v12Pos{Index: 1, Offset: 5}.id()) < 0
}

// v12PosCmp is the model order of log positions inside one case: positions are compared by their
// forward distance from the case's origin file index (so a file index that wrapped past 2^32 is
// newer), then by command time. All positions of a case lie within 2^30 files of the origin, far
// away from the half-range where "newer" is ambiguous.
func v12PosCmp(origin uint32, a, b v12Pos) int {
	ra := uint64(a.Index-origin)<<32 | uint64(a.Offset)
	rb := uint64(b.Index-origin)<<32 | uint64(b.Offset)
	switch {
	case ra > rb:
		return 1
	case ra < rb:
		return -1
	case a.Time > b.Time:
		return 1
	case a.Time < b.Time:
		return -1
	}
	return 0
}

type v12Member struct {
	Weight  uint32 `json:"weight"`
	Arbiter uint32 `json:"arbiter"`
	Pos     v12Pos `json:"pos"`              // the member's own log position (tail record of its aof file)
	Commit  uint64 `json:"commit"`           // commit id in the member's saved meta.pb
	Down    bool   `json:"down,omitempty"`   // crashed (the old leader): offline at everybody, never answers
	Polled  bool   `json:"polled,omitempty"` // the member knows the other members' log positions (status poll happened)
}

// layer 2: one candidacy round of an abstract, protocol-abiding candidate
type v12Round struct {
	Cand int    `json:"cand"` // member index of the candidate
	Pid  uint64 `json:"pid"`
	Host int    `json:"host"` // member index proposed as leader
	Pos  v12Pos `json:"pos"`  // log position claimed for it
}

type v12Step struct {
	Op        string `json:"op"` // prop | commit | restart | announce (winner of Round tells member To about the new leader)
	Round     int    `json:"round,omitempty"`
	To        int    `json:"to"`
	Lost      bool   `json:"lost,omitempty"`       // request lost: never delivered
	LostReply bool   `json:"lost_reply,omitempty"` // delivered, reply lost
}

// layer 3: one scheduling decision, interpreted against the list of enabled actions
type v12Choice struct {
	Pick int `json:"pick"`
	Fate int `json:"fate,omitempty"` // 0 deliver, 1 lose request, 2 deliver and lose reply
}

type v12Pure struct {
	Kind string `json:"kind"` // cmp | fmt | store
	A    v12Pos `json:"a"`
	Dist uint64 `json:"dist,omitempty"` // cmp: b = a advanced by dist (mod 2^64)
	BT   uint64 `json:"bt,omitempty"`   // cmp: command time of b
	Raw  string `json:"raw,omitempty"`  // fmt: 32 hex digits (or garbage)
	// store
	Hosts   []string `json:"hosts,omitempty"`
	Weights []uint32 `json:"weights,omitempty"`
	Arbs    []uint32 `json:"arbs,omitempty"`
	Owner   int      `json:"owner,omitempty"`
	Commit  uint64   `json:"commit,omitempty"`
	Version uint32   `json:"version,omitempty"`
	Vertime uint64   `json:"vertime,omitempty"`
	Gid     string   `json:"gid,omitempty"`
	Name    string   `json:"name,omitempty"`
}

type v12Case struct {
	Layer   string      `json:"layer"` // pure | acceptor | voter
	Pure    *v12Pure    `json:"pure,omitempty"`
	Origin  uint32      `json:"origin,omitempty"` // origin file index of the model order
	Members []v12Member `json:"members,omitempty"`
	Cands   []int       `json:"cands,omitempty"`
	// acceptor layer
	Rounds []v12Round `json:"rounds,omitempty"`
	Script []v12Step  `json:"script,omitempty"`
	// voter layer
	MaxRounds int         `json:"max_rounds,omitempty"`
	Sched     []v12Choice `json:"sched,omitempty"`
	// exclusion of the known finding: a restart is skipped when it would make the member forget an
	// accepted / committed number that is not in its saved metadata
	SkipForgetfulRestart bool `json:"skip_forgetful_restart,omitempty"`
	// exclusion of the known finding: a candidate whose proposal number was overwritten by an ERR_PROPOSALID
	// reply during a successful proposal phase gives the round up instead of committing the foreign number
	SkipForeignCommit bool `json:"skip_foreign_commit,omitempty"`
	// known finding tolerated: DoProposal's epilogue overwrites the candidate's own accepted number with its
	// (smaller) own number although its acceptor promised a higher one to somebody else in between
	TolerateOwnOverwrite bool `json:"tolerate_own_overwrite,omitempty"`
	// known finding tolerated: a candidate's failed DoCommit erases the pending commit its acceptor recorded
	// for another candidate; a case in which that happened is not judged for two winners any more
	TolerateForeignClear bool `json:"tolerate_foreign_clear,omitempty"`
}

func (c *v12Case) fingerprint() uint64 {
	return vHash(c.Layer, fmt.Sprintf("%+v", c.Pure), c.Origin, fmt.Sprint(c.Members), fmt.Sprint(c.Cands), fmt.Sprint(c.Rounds),
		fmt.Sprint(c.Script), c.MaxRounds, fmt.Sprint(c.Sched), c.SkipForgetfulRestart, c.SkipForeignCommit, c.TolerateOwnOverwrite, c.TolerateForeignClear)
}

type v12Info struct {
	nontrivial     bool
	classes        map[string]bool
	skipped        int            // forgetful restarts skipped (known finding excluded)
	skippedForeign int            // rounds given up instead of committing a foreign number (known finding excluded)
	tolerated      map[string]int // oracle verdicts withheld because their cause is a listed known finding
}

func (i *v12Info) tolerate(key string) {
	if i.tolerated == nil {
		i.tolerated = map[string]int{}
	}
	i.tolerated[key]++
}

func (i *v12Info) class(c string) {
	if i.classes == nil {
		i.classes = map[string]bool{}
	}
	i.classes[c] = true
}

func (i *v12Info) classList() []string {
	out := make([]string, 0, len(i.classes))
	for c := range i.classes {
		out = append(out, c)
	}
	sort.Strings(out)
	return out
}

// v12Err is a failed oracle with its failure-class key.
type v12Err struct {
	key string
	msg string
}

func (e *v12Err) Error() string { return e.msg }

func v12Fail(key, format string, a ...interface{}) *v12Err {
	return &v12Err{key, fmt.Sprintf(format, a...)}
}

func v12Guard(f func() (v12Info, *v12Err)) (info v12Info, err *v12Err) {
	defer func() {
		if r := recover(); r != nil {
			err = v12Fail("C12:panic", "panic: %v", r)
		}
	}()
	return f()
}

// ---------------------------------------------------------------------------------------------
// a logger that swallows everything but lets the harness observe the few lines that mark the end of a
// local (self) proposal / commit call of the voter

type v12Logger struct {
	logging.Logger
	hook func(format string, args []interface{})
}

func (l *v12Logger) emit(format string, args []interface{}) {
	if l.hook != nil {
		l.hook(format, args)
	}
}
func (l *v12Logger) Infof(format string, args ...interface{})  { l.emit(format, args) }
func (l *v12Logger) Errorf(format string, args ...interface{}) { l.emit(format, args) }
func (l *v12Logger) Warnf(format string, args ...interface{})  { l.emit(format, args) }
func (l *v12Logger) Debugf(format string, args ...interface{}) {}

// ---------------------------------------------------------------------------------------------
// cluster of real ArbiterManagers on scratch directories

var v12DirSeq uint64

func v12ScratchRoot() (string, error) {
	base := os.Getenv("VERIF_DATADIR")
	if base == "" {
		base = os.TempDir()
	}
	dir := filepath.Join(base, fmt.Sprintf("c12-%d-%d", os.Getpid(), atomic.AddUint64(&v12DirSeq, 1)))
	return dir, os.MkdirAll(dir, 0755)
}

func v12ServerConfig(dir string) *ServerConfig {
	return &ServerConfig{DataDir: dir, DBConcurrent: 1, AofFileBufferSize: 4096, AofFileRewriteSize: 67174400,
		AofQueueSize: 64, AofRingBufferSize: 1024, AofRingBufferMaxSize: 4096, ReplSet: "v12"}
}

// v12BareSLock builds the part of an SLock that the arbiter code touches during an election: logger,
// aof (for LoadMaxAofId) and the replication manager's current log position.
func v12BareSLock(lg logging.Logger) *SLock {
	aof := NewAof()
	rm := &ReplicationManager{glock: &sync.Mutex{}, isLeader: true}
	s := &SLock{glock: &sync.Mutex{}, aof: aof, replicationManager: rm, logger: lg, state: STATE_VOTE}
	aof.slock = s
	rm.slock = s
	return s
}

// v12WriteAof writes an aof file whose tail record carries pos, exactly what a data node that stopped
// at that position leaves behind.
func v12WriteAof(dir string, pos v12Pos) error {
	name := filepath.Join(dir, fmt.Sprintf("append.aof.%d", pos.Index))
	hdr := []byte{'S', 'L', 'O', 'C', 'K', 'A', 'O', 'F', 0x01, 0x00, 0x00, 0x00}
	l := NewAofLock()
	l.CommandType = protocol.COMMAND_LOCK
	l.AofIndex, l.AofOffset, l.CommandTime = pos.Index, pos.Offset, pos.Time
	if err := l.Encode(); err != nil {
		return err
	}
	l.buf[0], l.buf[1] = 62, 0
	if err := os.WriteFile(name, append(hdr, l.buf[:64]...), 0644); err != nil {
		return err
	}
	return os.WriteFile(name+".dat", nil, 0644)
}

func v12Host(i int) string { return fmt.Sprintf("127.0.0.1:%d", 7001+i) }

type v12AccState struct {
	proposalId, commitId uint64
	host, from           string
}

func (s v12AccState) String() string {
	return fmt.Sprintf("{accepted=%d committed=%d pendingHost=%q from=%q}", s.proposalId, s.commitId, s.host, s.from)
}

type v12Node struct {
	idx    int
	dir    string
	slock  *SLock
	mgr    *ArbiterManager
	lg     *v12Logger
	tokens map[int]*BinaryServerProtocol // sender member index -> the "connection" its requests arrive on
	boots  int
	// what the unchanged code is expected to have in meta.pb: the setup's commit id, later the member's commit id at the
	// moment it processed an announcement (the handler's Save is the only place an acceptor persists it)
	persisted uint64
	annDone   chan struct{} // one token per finished "update status" goroutine of the announcement handler
	reannDone chan struct{} // one token per finished background ArbiterManager.DoAnnouncement()
}

// awaitReannounce: a proposal answered ERR_STATUS / ERR_ROLE (a leader is known) has started exactly one background
// ArbiterManager.DoAnnouncement(); it reads voter.proposalHost without the voter lock, so it must be over before the next
// message is delivered (the schedule stays owned by the case, and the unsynchronised read cannot tear).
func (n *v12Node) awaitReannounce(why string) {
	if !strings.Contains(why, "ERR_STATUS") && !strings.Contains(why, "ERR_ROLE") {
		return
	}
	select {
	case <-n.reannDone:
	case <-time.After(90 * time.Second):
		fmt.Printf("VERIF-INCONCLUSIVE C12: background re-announcement of member %d did not finish\n", n.idx)
		vFlush()
		os.Exit(3)
	}
}

func (n *v12Node) state() v12AccState {
	v := n.mgr.voter
	v.glock.Lock()
	defer v.glock.Unlock()
	return v12AccState{v.proposalId, v.commitId, v.proposalHost, v.proposalFromHost}
}

type v12Cluster struct {
	c     *v12Case
	root  string
	nodes []*v12Node
}

func (cl *v12Cluster) majority() int { return len(cl.c.Members)/2 + 1 }

func (cl *v12Cluster) close() {
	if cl.root != "" {
		_ = os.RemoveAll(cl.root)
	}
}

func v12NewCluster(c *v12Case) (*v12Cluster, *v12Err) {
	root, err := v12ScratchRoot()
	if err != nil {
		return nil, v12Fail(v12KeyHarness, "scratch dir: %v", err)
	}
	cl := &v12Cluster{c: c, root: root, nodes: make([]*v12Node, len(c.Members))}
	for i, m := range c.Members {
		if m.Down {
			continue
		}
		n := &v12Node{idx: i, dir: filepath.Join(root, fmt.Sprintf("m%d", i))}
		cl.nodes[i] = n
		if err = os.MkdirAll(n.dir, 0755); err != nil {
			return cl, v12Fail(v12KeyHarness, "mkdir: %v", err)
		}
		if m.Arbiter == 0 {
			if err = v12WriteAof(n.dir, m.Pos); err != nil {
				return cl, v12Fail(v12KeyHarness, "write aof: %v", err)
			}
		}
		// the member's previous life: its last Save wrote the membership and this commit id
		Config = v12ServerConfig(n.dir)
		prev := NewArbiterManager(v12BareSLock(&v12Logger{}), "v12")
		for j, mj := range c.Members {
			am := NewArbiterMember(prev, v12Host(j), mj.Weight, mj.Arbiter)
			if j == i {
				am.isSelf = true
				prev.ownMember = am
			}
			prev.members = append(prev.members, am)
		}
		prev.gid, prev.version, prev.vertime = "6769642d763132", 3, 1700000000000
		prev.voter.commitId = m.Commit
		if err = prev.store.Save(prev); err != nil {
			return cl, v12Fail(v12KeyStore, "setup Save: %v", err)
		}
		if e := cl.boot(i); e != nil {
			return cl, e
		}
	}
	return cl, nil
}

// boot starts member i from what is on its disk: the real ArbiterManager.Load path, then the wiring that
// Start() + the connect handshakes would establish (everybody who is up is connected to everybody).
func (cl *v12Cluster) boot(i int) *v12Err {
	n, m := cl.nodes[i], cl.c.Members[i]
	Config = v12ServerConfig(n.dir)
	n.lg = &v12Logger{}
	done := make(chan struct{}, 64)
	redone := make(chan struct{}, 64)
	n.annDone, n.reannDone = done, redone
	n.lg.hook = func(format string, args []interface{}) {
		switch {
		case strings.HasPrefix(format, "Arbiter handle announcementcommand update status succed"):
			done <- struct{}{}
		case strings.HasPrefix(format, "Arbiter replication do announcement finish"), strings.HasPrefix(format, "Arbiter announcement error"):
			redone <- struct{}{}
		}
	}
	n.slock = v12BareSLock(n.lg)
	n.mgr = NewArbiterManager(n.slock, "v12")
	n.slock.arbiterManager = n.mgr
	// updateStatus returns before it touches the replication layer (there is none here); no election handler and
	// nothing in the store reads this flag
	n.mgr.isClosing = true
	if n.boots == 0 {
		n.persisted = m.Commit
	}
	n.boots++
	if err := n.mgr.Load(); err != nil {
		return v12Fail(v12KeyStore, "member %d: Load from saved metadata failed: %v", i, err)
	}
	mgr := n.mgr
	if mgr.ownMember == nil || mgr.ownMember.host != v12Host(i) || len(mgr.members) != len(cl.c.Members) {
		return v12Fail(v12KeyStore, "member %d: Load restored own=%v members=%d", i, mgr.ownMember, len(mgr.members))
	}
	if mgr.voter.proposalId != mgr.voter.commitId || mgr.voter.proposalHost != "" || (n.persisted == m.Commit && mgr.voter.commitId != m.Commit) {
		return v12Fail(v12KeyStore, "member %d: Load restored accepted=%d committed=%d pending=%q, saved commit id %d", i,
			mgr.voter.proposalId, mgr.voter.commitId, mgr.voter.proposalHost, n.persisted)
	}
	if m.Arbiter == 0 && n.slock.replicationManager.currentAofId != m.Pos.id() {
		return v12Fail(v12KeyStore, "member %d: Load found log position %s, aof tail is %s", i,
			FormatAofId(n.slock.replicationManager.currentAofId), FormatAofId(m.Pos.id()))
	}
	n.tokens = map[int]*BinaryServerProtocol{}
	for j, am := range mgr.members {
		mj := cl.c.Members[j]
		if am.host != v12Host(j) || am.weight != mj.Weight || am.arbiter != mj.Arbiter {
			return v12Fail(v12KeyStore, "member %d: Load restored member %d as %s/%d/%d", i, j, am.host, am.weight, am.arbiter)
		}
		switch {
		case j == i:
			am.status = ARBITER_MEMBER_STATUS_ONLINE
			if m.Arbiter == 0 && m.Polled {
				am.aofId = m.Pos.id() // refreshed by the member's own status tick (every 2 s); zero right after a start
			}
		case mj.Down:
			am.status = ARBITER_MEMBER_STATUS_OFFLINE
			if n.boots == 1 {
				am.role = ARBITER_ROLE_LEADER // the crashed leader as the survivors remember it
			}
		default:
			am.status = ARBITER_MEMBER_STATUS_ONLINE
			tok := &BinaryServerProtocol{}
			n.tokens[j] = tok
			am.server = &ArbiterServer{member: am, protocol: tok}
			// an outgoing connection that is down: what the code sends on its own (re-announcements to a known leader)
			// fails with "client closed" instead of going anywhere; layer 3 replaces it for its candidates
			am.client = &ArbiterClient{member: am, glock: &sync.Mutex{}, rchannel: make(chan protocol.CommandDecode, 8), closed: true, closedWaiter: make(chan struct{})}
			if m.Polled && mj.Arbiter == 0 {
				am.aofId = mj.Pos.id()
			}
		}
	}
	return nil
}

// ---------------------------------------------------------------------------------------------
// layer 1: pure laws

func v12RunPure(c *v12Case) (v12Info, *v12Err) {
	var info v12Info
	p := c.Pure
	if p == nil {
		return info, v12Fail(v12KeyHarness, "pure case without data")
	}
	mgr := NewArbiterManager(v12BareSLock(&v12Logger{}), "v12")
	switch p.Kind {
	case "cmp":
		a := p.A
		baid := a.aid() + p.Dist
		b := v12Pos{Index: uint32(baid >> 32), Offset: uint32(baid), Time: p.BT}
		ab, ba := mgr.CompareAofId(a.id(), b.id()), mgr.CompareAofId(b.id(), a.id())
		if r := mgr.CompareAofId(a.id(), a.id()); r != 0 {
			return info, v12Fail(v12KeyCompare, "CompareAofId(%s, itself) = %d", a, r)
		}
		if ab != -ba {
			return info, v12Fail(v12KeyCompare, "antisymmetry: CompareAofId(%s,%s)=%d but reversed=%d", a, b, ab, ba)
		}
		want := 0
		switch {
		case p.Dist == 0 && b.Time > a.Time:
			want = 1
		case p.Dist == 0 && b.Time < a.Time:
			want = -1
		case p.Dist == 0:
			want = 0
		case p.Dist < v12WrapDistance:
			want = 1 // b is a advanced by fewer than 2^31-1 files: newer, also when the file index wrapped
		case -p.Dist < v12WrapDistance:
			want = -1 // a is b advanced by fewer than 2^31-1 files
		default:
			want = 2 // ambiguous half-range window: only antisymmetry is required
		}
		if want != 2 && ba != want {
			// what a comparison that takes the in-file offset as the major and the file index as the minor key would say
			sa, sb := uint64(a.Offset)<<32|uint64(a.Index), uint64(b.Offset)<<32|uint64(b.Index)
			swapped := 0
			switch {
			case sb > sa && sb-sa >= v12WrapDistance, sb < sa && sa-sb < v12WrapDistance:
				swapped = -1
			case sb != sa:
				swapped = 1
			}
			if swapped == ba && a.Index != b.Index && v12OffsetMajor(mgr) {
				return info, v12Fail(v12KeyCmpOrder, "CompareAofId(b=%s, a=%s) = %d, want %d: b is a advanced by %#x (file index, then offset), but the result is what comparing (offset, then file index) gives",
					b, a, ba, want, p.Dist)
			}
			return info, v12Fail(v12KeyCompare, "CompareAofId(b=%s, a=%s) = %d, want %d (b = a advanced by %#x)", b, a, ba, want, p.Dist)
		}
		wrapped := p.Dist != 0 && ((p.Dist < v12WrapDistance && baid < a.aid()) || (-p.Dist < v12WrapDistance && baid > a.aid()))
		if wrapped {
			info.class("file index wrapped between the two positions")
		}
		if p.Dist == 0 && a.Time != b.Time {
			info.class("same file position, different command time")
		}
		if want == 2 {
			info.class("ambiguous half-range window")
		}
		if want != 2 && p.Dist != 0 && !wrapped {
			info.class("plain integer order")
		}
		info.nontrivial = wrapped || (p.Dist == 0 && a.Time != b.Time)
	case "fmt":
		id := p.A.id()
		s := FormatAofId(id)
		if len(s) != 32 || strings.ToLower(s) != s {
			return info, v12Fail(v12KeyFormat, "FormatAofId(%v) = %q", id, s)
		}
		want := fmt.Sprintf("%08x%08x%016x", p.A.Index, p.A.Offset, p.A.Time)
		if s != want {
			return info, v12Fail(v12KeyFormat, "FormatAofId(%s) = %q, want index|offset|time big-endian %q", p.A, s, want)
		}
		back, err := ParseAofId(s)
		if err != nil || back != id {
			return info, v12Fail(v12KeyFormat, "ParseAofId(FormatAofId(%s)) = %v, %v", p.A, back, err)
		}
		if mgr.DecodeAofId(mgr.EncodeAofId(id)) != id {
			return info, v12Fail(v12KeyFormat, "DecodeAofId(EncodeAofId(%s)) differs", p.A)
		}
		l := NewAofLock()
		l.SetAofId(id)
		if l.AofIndex != p.A.Index || l.AofOffset != p.A.Offset || l.CommandTime != p.A.Time || l.GetAofId() != id {
			return info, v12Fail(v12KeyFormat, "AofLock.SetAofId/GetAofId(%s) = %d/%d@%d", p.A, l.AofIndex, l.AofOffset, l.CommandTime)
		}
		// arbitrary text
		got, err := ParseAofId(p.Raw)
		_, herr := hex.DecodeString(p.Raw)
		valid := len(p.Raw) == 32 && herr == nil
		if valid {
			if err != nil {
				return info, v12Fail(v12KeyFormat, "ParseAofId(%q) failed: %v", p.Raw, err)
			}
			if FormatAofId(got) != strings.ToLower(p.Raw) {
				return info, v12Fail(v12KeyFormat, "FormatAofId(ParseAofId(%q)) = %q", p.Raw, FormatAofId(got))
			}
			info.class("valid text parsed")
		} else {
			if err == nil {
				return info, v12Fail(v12KeyFormat, "ParseAofId(%q) accepted malformed text as %v", p.Raw, got)
			}
			if mgr.DecodeAofId(p.Raw) != ([16]byte{}) {
				return info, v12Fail(v12KeyFormat, "DecodeAofId(%q) of malformed text is not the zero position", p.Raw)
			}
			info.class("malformed text refused")
		}
		info.nontrivial = p.A.Index != 0 && p.A.Offset != 0 && p.A.Time != 0
	case "store":
		dir, err := v12ScratchRoot()
		if err != nil {
			return info, v12Fail(v12KeyHarness, "scratch dir: %v", err)
		}
		defer os.RemoveAll(dir)
		Config = v12ServerConfig(dir)
		// a fresh directory loads as "not configured"
		empty := NewArbiterManager(v12BareSLock(&v12Logger{}), p.Name)
		if err = empty.Load(); err != nil || empty.ownMember != nil || len(empty.members) != 0 {
			return info, v12Fail(v12KeyStore, "Load without meta.pb: err=%v own=%v members=%d", err, empty.ownMember, len(empty.members))
		}
		w := NewArbiterManager(v12BareSLock(&v12Logger{}), p.Name)
		for j, h := range p.Hosts {
			am := NewArbiterMember(w, h, p.Weights[j], p.Arbs[j])
			if j == p.Owner {
				am.isSelf = true
				w.ownMember = am
			}
			w.members = append(w.members, am)
		}
		w.gid, w.version, w.vertime = p.Gid, p.Version, p.Vertime
		w.voter.commitId = p.Commit
		w.voter.proposalId = p.Commit + 5 // accepted but not committed: not part of the metadata
		if err = w.store.Save(w); err != nil {
			return info, v12Fail(v12KeyStore, "Save: %v", err)
		}
		for pass := 0; pass < 2; pass++ {
			r := NewArbiterManager(v12BareSLock(&v12Logger{}), p.Name)
			err = r.Load()
			if p.Owner < 0 || p.Owner >= len(p.Hosts) {
				if err == nil {
					return info, v12Fail(v12KeyStore, "Load accepted metadata whose owner is not a member")
				}
				info.class("owner missing: refused")
				return info, nil
			}
			if err != nil {
				return info, v12Fail(v12KeyStore, "Load: %v", err)
			}
			if len(r.members) != len(p.Hosts) || r.ownMember == nil || r.ownMember.host != p.Hosts[p.Owner] || !r.ownMember.isSelf {
				return info, v12Fail(v12KeyStore, "Load: %d members own=%v, saved %d members owner %q", len(r.members), r.ownMember, len(p.Hosts), p.Hosts[p.Owner])
			}
			for j, am := range r.members {
				if am.host != p.Hosts[j] || am.weight != p.Weights[j] || am.arbiter != p.Arbs[j] || am.manager != r {
					return info, v12Fail(v12KeyStore, "member %d loaded as (%q,%d,%d), saved (%q,%d,%d)", j, am.host, am.weight, am.arbiter, p.Hosts[j], p.Weights[j], p.Arbs[j])
				}
				if am.isSelf != (j == p.Owner) && p.Hosts[j] != p.Hosts[p.Owner] {
					return info, v12Fail(v12KeyStore, "member %d isSelf=%v", j, am.isSelf)
				}
			}
			if r.voter.commitId != p.Commit || r.voter.proposalId != p.Commit {
				return info, v12Fail(v12KeyStore, "loaded commit id %d accepted %d, saved commit id %d", r.voter.commitId, r.voter.proposalId, p.Commit)
			}
			if r.gid != p.Gid || r.version != p.Version || r.vertime != p.Vertime {
				return info, v12Fail(v12KeyStore, "loaded gid/version/vertime %q/%d/%d, saved %q/%d/%d", r.gid, r.version, r.vertime, p.Gid, p.Version, p.Vertime)
			}
			// saving what was loaded is a fixpoint
			if err = r.store.Save(r); err != nil {
				return info, v12Fail(v12KeyStore, "second Save: %v", err)
			}
		}
		mixed := map[string]bool{}
		for j := range p.Hosts {
			mixed[fmt.Sprint(p.Weights[j] == 0, p.Arbs[j] != 0)] = true
		}
		info.nontrivial = len(p.Hosts) >= 3 && len(mixed) >= 2 && p.Commit > 0
		if p.Commit > 1<<32 {
			info.class("commit id > 2^32")
		}
	default:
		return info, v12Fail(v12KeyHarness, "unknown pure kind %q", p.Kind)
	}
	return info, nil
}

func v12GenPos(t *rapid.T, label string) v12Pos {
	edge32 := []uint32{0, 1, 2, 0x7ffffffe, 0x7fffffff, 0x80000000, 0x80000001, 0xfffffffe, 0xffffffff}
	pick32 := func(l string) uint32 {
		if rapid.IntRange(0, 2).Draw(t, l+"Edge") == 0 {
			return rapid.SampledFrom(edge32).Draw(t, l)
		}
		return rapid.Uint32().Draw(t, l)
	}
	tm := rapid.Uint64().Draw(t, label+"Time")
	if rapid.IntRange(0, 3).Draw(t, label+"TimeSmall") == 0 {
		tm = uint64(rapid.IntRange(0, 3).Draw(t, label+"TimeS"))
	}
	return v12Pos{Index: pick32(label + "Index"), Offset: pick32(label + "Offset"), Time: tm}
}

func v12GenPure(t *rapid.T, kind string) *v12Case {
	p := &v12Pure{Kind: kind}
	switch kind {
	case "cmp":
		p.A = v12GenPos(t, "a")
		switch rapid.IntRange(0, 9).Draw(t, "distKind") {
		case 0:
			p.Dist = 0
		case 1, 2:
			p.Dist = uint64(rapid.IntRange(1, 1<<20).Draw(t, "distSmall"))
		case 3, 4:
			p.Dist = uint64(rapid.Uint32Range(1, 0x7ffffffe).Draw(t, "distFiles"))<<32 | uint64(rapid.Uint32().Draw(t, "distOff"))
		case 5:
			p.Dist = v12WrapDistance - uint64(rapid.IntRange(1, 4).Draw(t, "distBelow"))
		case 6:
			p.Dist = -(v12WrapDistance - uint64(rapid.IntRange(1, 4).Draw(t, "distBelowNeg")))
		case 7:
			p.Dist = -uint64(rapid.IntRange(1, 1<<20).Draw(t, "distNegSmall"))
		case 8:
			p.Dist = v12WrapDistance + uint64(rapid.Uint64Range(0, 0x200000000).Draw(t, "distWindow"))
		default:
			p.Dist = rapid.Uint64().Draw(t, "distAny")
		}
		if vIsKnown(v12KeyCmpOrder) {
			// known finding excluded by construction: only pairs inside one file whose offsets are < 2^31 apart
			p.A.Offset &= 0x3fffffff
			p.Dist = uint64(rapid.Uint32Range(0, 0x3fffffff).Draw(t, "distSameFile"))
		}
		p.BT = p.A.Time
		if rapid.Bool().Draw(t, "otherTime") {
			p.BT = v12GenPos(t, "b").Time
		}
	case "fmt":
		p.A = v12GenPos(t, "a")
		switch rapid.IntRange(0, 3).Draw(t, "rawKind") {
		case 0:
			p.Raw = rapid.StringMatching(`[0-9a-f]{32}`).Draw(t, "rawHex")
		case 1:
			p.Raw = rapid.StringMatching(`[0-9a-fA-F]{32}`).Draw(t, "rawHexMixed")
		case 2:
			p.Raw = rapid.StringMatching(`[0-9a-fg-z]{0,40}`).Draw(t, "rawBad")
		default:
			p.Raw = rapid.StringN(0, 40, 64).Draw(t, "rawAny")
		}
	case "store":
		n := rapid.IntRange(1, 6).Draw(t, "members")
		for j := 0; j < n; j++ {
			p.Hosts = append(p.Hosts, fmt.Sprintf("%s:%d", rapid.StringMatching(`[a-z0-9.-]{1,12}`).Draw(t, "hostName"), rapid.IntRange(1, 65535).Draw(t, "port")))
			p.Weights = append(p.Weights, rapid.SampledFrom([]uint32{0, 0, 1, 1, 2, 7, 0xffffffff}).Draw(t, "weight"))
			p.Arbs = append(p.Arbs, rapid.SampledFrom([]uint32{0, 0, 1}).Draw(t, "arbiter"))
		}
		p.Owner = rapid.IntRange(0, n-1).Draw(t, "owner")
		if rapid.IntRange(0, 19).Draw(t, "ownerMissing") == 0 {
			p.Owner = -1
		}
		p.Commit = rapid.SampledFrom([]uint64{0, 1, 2, 3, 77, 1 << 31, 1<<32 + 5, 1<<63 + 1, ^uint64(0)}).Draw(t, "commit")
		p.Version = rapid.Uint32().Draw(t, "version")
		p.Vertime = rapid.Uint64().Draw(t, "vertime")
		p.Gid = rapid.StringMatching(`[0-9a-f]{0,32}`).Draw(t, "gid")
		p.Name = rapid.StringMatching(`[a-z]{1,8}`).Draw(t, "name")
	}
	return &v12Case{Layer: "pure", Pure: p}
}

func v12Prop(test string, gen func(t *rapid.T) *v12Case, run func(c *v12Case) (v12Info, *v12Err)) func(t *rapid.T) {
	st := vstat(test)
	return func(t *rapid.T) {
		c := gen(t)
		saved := Config
		info, err := v12Guard(func() (v12Info, *v12Err) { return run(c) })
		Config = saved
		for i := 0; i < info.skipped; i++ {
			st.Exclude("restart that would forget an unsaved accepted/committed number skipped: known finding " + v12KeyRestart)
		}
		for i := 0; i < info.skippedForeign; i++ {
			st.Exclude("round abandoned instead of committing an overwritten proposal number: known finding " + v12KeyForeign)
		}
		for _, k := range v12CauseOrder {
			for i := 0; i < info.tolerated[k]; i++ {
				st.Exclude("verdict withheld, consequence of known finding " + k)
			}
		}
		st.Case(info.nontrivial, c.fingerprint(), info.classList(), func() interface{} { return c })
		if err != nil {
			vFail(t, test, err.key, c, "%s", err.msg)
		}
	}
}

func TestC12_Pure_CompareAofId(t *testing.T) {
	rapid.Check(t, v12Prop("TestC12_Pure_CompareAofId", func(t *rapid.T) *v12Case { return v12GenPure(t, "cmp") }, v12RunPure))
}

func TestC12_Pure_FormatParse(t *testing.T) {
	rapid.Check(t, v12Prop("TestC12_Pure_FormatParse", func(t *rapid.T) *v12Case { return v12GenPure(t, "fmt") }, v12RunPure))
}

func TestC12_Pure_StoreRoundTrip(t *testing.T) {
	rapid.Check(t, v12Prop("TestC12_Pure_StoreRoundTrip", func(t *rapid.T) *v12Case { return v12GenPure(t, "store") }, v12RunPure))
}

// ---------------------------------------------------------------------------------------------
// layer 2: acceptor-level state machine

type v12RoundRun struct {
	propSent   map[int]bool
	commitSent map[int]bool
	acks       map[int]bool // acceptors whose positive proposal reply reached the candidate
	recorded   map[int]bool // acceptors that recorded this round's commit
	annSent    map[int]bool
}

// v12CallProposal delivers a proposal request of candidate member `from` to acceptor `to` through the real
// handler (or DoSelfProposal when the candidate is the acceptor itself) and reports whether it was accepted.
func (cl *v12Cluster) callProposal(from, to int, pid uint64, host string, pos v12Pos) (bool, string, *v12Err) {
	n := cl.nodes[to]
	if from == to {
		_, err := n.mgr.ownMember.DoSelfProposal(pid, host, pos.id())
		if err != nil {
			n.awaitReannounce(err.Error())
			return false, err.Error(), nil
		}
		return true, "", nil
	}
	data, err := proto.Marshal(&protobuf.ArbiterProposalRequest{ProposalId: pid, AofId: FormatAofId(pos.id()), Host: host})
	if err != nil {
		return false, "", v12Fail(v12KeyHarness, "marshal: %v", err)
	}
	res, err := n.mgr.commandHandleProposalCommand(n.tokens[from], protocol.NewCallCommand("REPL_PROPOSAL", data))
	if err != nil || res == nil {
		return false, "", v12Fail(v12KeyAcceptor, "proposal handler of member %d returned (%v, %v)", to, res, err)
	}
	n.awaitReannounce(res.ErrType)
	return res.Result == 0 && res.ErrType == "", res.ErrType, nil
}

func (cl *v12Cluster) callCommit(from, to int, pid uint64, host string, pos v12Pos) (bool, string, *v12Err) {
	n := cl.nodes[to]
	if from == to {
		_, err := n.mgr.ownMember.DoSelfCommit(pid, host)
		if err != nil {
			return false, err.Error(), nil
		}
		return true, "", nil
	}
	data, err := proto.Marshal(&protobuf.ArbiterCommitRequest{ProposalId: pid, AofId: FormatAofId(pos.id()), Host: host})
	if err != nil {
		return false, "", v12Fail(v12KeyHarness, "marshal: %v", err)
	}
	res, err := n.mgr.commandHandleCommitCommand(n.tokens[from], protocol.NewCallCommand("REPL_COMMIT", data))
	if err != nil || res == nil {
		return false, "", v12Fail(v12KeyAcceptor, "commit handler of member %d returned (%v, %v)", to, res, err)
	}
	return res.Result == 0 && res.ErrType == "", res.ErrType, nil
}

// v12Monitor holds the oracles that are shared by the acceptor and the voter layer: they look at acceptor
// state before / after every delivered message and at the commits actually recorded.
type v12Monitor struct {
	cl        *v12Cluster
	info      *v12Info
	trace     []string
	acked     []map[uint64]string // per acceptor: proposal number -> "candidate/round" it was acknowledged to (since last boot)
	open      []map[string]int    // per acceptor: candidacy label -> candidate whose proposal was delivered and is not concluded
	recorded  map[string]map[int]bool
	winners   []string
	forgot    []string // restarts after which a member's numbers went backwards
	softFails []*v12Err
	// causes: defects observed earlier in the execution (key -> descriptions) and the members whose acceptor state
	// they corrupted; a later oracle failure at such a member (or a second winner) is reported under the cause's
	// key, and withheld when the case tolerates that key (the finding is listed as known)
	causes    map[string][]string
	taintAt   map[int]string
	tolerate  map[string]bool
	voterMode bool // layer 3: winners are judged by DoCommit's result, not by recorded majorities alone
	// announcements (layer 2): floor = commit id a member held when it processed an announcement (persisted by the
	// handler's Save); it must survive a restart and stale requests with a number <= floor stay refused
	floor      map[int]uint64
	reborn     map[int]bool // restarted after a processed announcement
	announced  bool         // some announcement was processed: the election is over, later majorities are not "overlapping"
	annVersion map[string][2]uint64
}

// conclude: the candidacy is over (failed or won); later proposals of others do not overlap with it.
func (m *v12Monitor) conclude(label string) {
	for _, o := range m.open {
		delete(o, label)
	}
}

func v12NewMonitor(cl *v12Cluster, info *v12Info) *v12Monitor {
	m := &v12Monitor{cl: cl, info: info, recorded: map[string]map[int]bool{}, causes: map[string][]string{}, taintAt: map[int]string{},
		floor: map[int]uint64{}, reborn: map[int]bool{}, annVersion: map[string][2]uint64{},
		tolerate: map[string]bool{v12KeyForeign: cl.c.SkipForeignCommit, v12KeyOwnOverwrite: cl.c.TolerateOwnOverwrite, v12KeyForeignClear: cl.c.TolerateForeignClear}}
	for range cl.c.Members {
		m.acked = append(m.acked, map[uint64]string{})
		m.open = append(m.open, map[string]int{})
	}
	return m
}

func (m *v12Monitor) logf(format string, a ...interface{}) {
	m.trace = append(m.trace, fmt.Sprintf(format, a...))
}

func (m *v12Monitor) history() string {
	t := m.trace
	if len(t) > 40 {
		t = append([]string{"..."}, t[len(t)-40:]...)
	}
	return strings.Join(t, "; ")
}

var v12CauseOrder = []string{v12KeyRestart, v12KeyForeignClear, v12KeyForeign, v12KeyOwnOverwrite}

// cause notes a defect that corrupted member i's acceptor state.
func (m *v12Monitor) cause(key string, i int, desc string) {
	m.causes[key] = append(m.causes[key], desc)
	if _, ok := m.taintAt[i]; !ok {
		m.taintAt[i] = key
	}
	m.logf("(%s)", desc)
}

// blame: the key an oracle failure at these members is reported under, and whether the verdict is withheld.
func (m *v12Monitor) blame(def string, members ...int) (string, bool) {
	for _, i := range members {
		if k, ok := m.taintAt[i]; ok {
			return k, m.tolerate[k]
		}
	}
	return def, false
}

// blameAny: same for a global verdict (second winner).
func (m *v12Monitor) blameAny(def string) (string, bool) {
	for _, k := range v12CauseOrder {
		if len(m.causes[k]) > 0 {
			return k, m.tolerate[k]
		}
	}
	return def, false
}

func (m *v12Monitor) causeList() string {
	var out []string
	for _, k := range v12CauseOrder {
		out = append(out, m.causes[k]...)
	}
	return strings.Join(out, " | ")
}

func (m *v12Monitor) afterProposal(label string, cand, to int, pid uint64, pos v12Pos, pre, post v12AccState, ok bool, why string) *v12Err {
	mem := m.cl.c.Members[to]
	m.logf("%s proposal n=%d pos=%s -> m%d: %v %s %s", label, pid, pos, to, ok, why, post)
	for l, c := range m.open[to] {
		if c != cand && l != label {
			m.info.nontrivial = true
			m.info.class("proposals of two candidates overlap at an acceptor")
		}
	}
	m.open[to][label] = cand
	if fl, ok := m.floor[to]; ok && m.reborn[to] && pid <= fl {
		m.info.nontrivial = true
		m.info.class("announce, restart, then stale proposal delivered")
	}
	if post.proposalId < pre.proposalId || post.commitId < pre.commitId {
		return v12Fail(v12KeyRegress, "member %d: numbers went backwards on a proposal: %s -> %s [%s]", to, pre, post, m.history())
	}
	if !ok {
		if post != pre {
			return v12Fail(v12KeyAcceptor, "member %d refused proposal n=%d (%s) but changed state %s -> %s [%s]", to, pid, why, pre, post, m.history())
		}
		if why == "ERR_REJECT" || why == ProposalRejectError.Error() {
			m.info.class("proposal refused: own log newer")
		}
		return nil
	}
	m.info.class("proposal accepted")
	if fl, ok := m.floor[to]; ok && pid <= fl {
		return v12Fail(v12KeyAnnounce, "member %d accepted the stale proposal n=%d of %s although it had processed (and must have saved) an announcement with commit id %d before its restart; state %s -> %s [%s]",
			to, pid, label, fl, pre, post, m.history())
	}
	if !(pid > pre.proposalId && pid > pre.commitId && pre.host == "") {
		key, withheld := m.blame(v12KeyAcceptor, to)
		if !withheld {
			return v12Fail(key, "member %d accepted proposal n=%d in state %s (needs n > accepted, n > committed, no outstanding commit) [%s]", to, pid, pre, m.history())
		}
		m.info.tolerate(key)
	}
	if post.proposalId != pid || post.commitId != pre.commitId || post.host != pre.host {
		return v12Fail(v12KeyAcceptor, "member %d accepted proposal n=%d: state %s -> %s [%s]", to, pid, pre, post, m.history())
	}
	if prev, dup := m.acked[to][pid]; dup && prev != label {
		key, withheld := m.blame(v12KeyTwice, to)
		if !withheld {
			return v12Fail(key, "member %d acknowledged proposal number %d to %s and again to %s [%s]", to, pid, prev, label, m.history())
		}
		m.info.tolerate(key)
	}
	m.acked[to][pid] = label
	if mem.Arbiter == 0 && v12PosCmp(m.cl.c.Origin, mem.Pos, pos) > 0 {
		key := v12KeyNewerLog
		if mgr := m.cl.nodes[to].mgr; mgr.CompareAofId(mem.Pos.id(), pos.id()) <= 0 && v12OffsetMajor(mgr) {
			key = v12KeyCmpOrder // consequence of the comparison function ordering these two positions the other way round
		}
		return v12Fail(key, "member %d (log %s) accepted a proposal for older log position %s [%s]", to, mem.Pos, pos, m.history())
	}
	return nil
}

func (m *v12Monitor) afterCommit(label string, cand, to int, pid uint64, host string, pre, post v12AccState, ok bool, why string) *v12Err {
	m.logf("%s commit n=%d host=%s -> m%d: %v %s %s", label, pid, host, to, ok, why, post)
	delete(m.open[to], label)
	if post.proposalId < pre.proposalId || post.commitId < pre.commitId {
		return v12Fail(v12KeyRegress, "member %d: numbers went backwards on a commit: %s -> %s [%s]", to, pre, post, m.history())
	}
	if !ok {
		if post != pre {
			return v12Fail(v12KeyAcceptor, "member %d refused commit n=%d (%s) but changed state %s -> %s [%s]", to, pid, why, pre, post, m.history())
		}
		return nil
	}
	m.info.class("commit recorded")
	if fl, ok := m.floor[to]; ok && pid <= fl {
		return v12Fail(v12KeyAnnounce, "member %d recorded the stale commit n=%d of %s although it had processed an announcement with commit id %d before; state %s -> %s [%s]",
			to, pid, label, fl, pre, post, m.history())
	}
	if pre.proposalId != pid || pre.commitId >= pid || pre.host != "" {
		key, withheld := m.blame(v12KeyAcceptor, to)
		if !withheld {
			return v12Fail(key, "member %d recorded commit n=%d in state %s (only the accepted number, once, never over a pending commit) [%s]", to, pid, pre, m.history())
		}
		m.info.tolerate(key)
	}
	if post.commitId != pid || post.proposalId != pid || post.host != host || post.from != v12Host(cand) {
		return v12Fail(v12KeyAcceptor, "member %d recorded commit n=%d host=%s from m%d as %s [%s]", to, pid, host, cand, post, m.history())
	}
	if m.recorded[label] == nil {
		m.recorded[label] = map[int]bool{}
	}
	m.recorded[label][to] = true
	if len(m.recorded[label]) == m.cl.majority() {
		m.winners = append(m.winners, label)
		m.info.class("commit majority recorded")
		if len(m.winners) > 1 && m.voterMode {
			m.info.class("two recorded commit majorities (at most one candidate may succeed)")
		}
		if len(m.winners) > 1 && !m.voterMode && m.announced {
			// an announcement legitimately ended the election (and cleared pending commits): later majorities do not overlap
			m.info.class("further commit majority after an announcement (not judged)")
			m.winners = m.winners[:1]
			return nil
		}
		if len(m.winners) > 1 && !m.voterMode {
			key, withheld := m.blameAny(v12KeyTwoWin)
			if withheld {
				m.info.tolerate(key)
				m.winners = m.winners[:1]
				return nil
			}
			return v12Fail(key, "two candidacies gathered commit majorities in one election: %s; earlier defects in this execution: [%s] [%s]",
				m.describeWinners(), m.causeList(), m.history())
		}
	}
	return nil
}

func (m *v12Monitor) describeWinners() string {
	var parts []string
	for _, w := range m.winners {
		var ms []int
		for i := range m.recorded[w] {
			ms = append(ms, i)
		}
		sort.Ints(ms)
		parts = append(parts, fmt.Sprintf("%s recorded at members %v", w, ms))
	}
	return strings.Join(parts, " AND ")
}

// restart re-boots member i from its directory. It returns (skipped, error).
func (m *v12Monitor) restart(i int) (bool, *v12Err) {
	n := m.cl.nodes[i]
	pre := n.state()
	saved := n.persisted
	forgetful := pre.proposalId != saved || pre.commitId != saved || pre.host != ""
	if forgetful && m.cl.c.SkipForgetfulRestart {
		m.info.skipped++
		m.logf("restart m%d skipped (would forget %s)", i, pre)
		return true, nil
	}
	if e := m.cl.boot(i); e != nil {
		return false, e
	}
	post := n.state()
	m.acked[i] = map[uint64]string{}
	m.logf("restart m%d: %s -> %s", i, pre, post)
	m.info.class("restart executed")
	if fl, ok := m.floor[i]; ok {
		m.reborn[i] = true
		m.info.class("restart after a processed announcement")
		if post.commitId < fl || post.proposalId < fl {
			return false, v12Fail(v12KeyAnnounce, "member %d processed an announcement while holding commit id %d, restarted from its saved metadata and came back with %s (before the restart %s): the committed number of the finished election is not in meta.pb [%s]",
				i, fl, post, pre, m.history())
		}
	}
	if post.proposalId < pre.proposalId || post.commitId < pre.commitId || (pre.host != "" && post.host == "") {
		m.forgot = append(m.forgot, fmt.Sprintf("m%d %s -> %s", i, pre, post))
		m.cause(v12KeyRestart, i, fmt.Sprintf("m%d restarted and forgot %s -> %s", i, pre, post))
		m.info.class("restart forgot numbers")
		m.softFails = append(m.softFails, v12Fail(v12KeyRestart,
			"member %d restarted from its saved metadata and its numbers went backwards: %s -> %s (meta.pb holds commit id %d; accepting a proposal / commit is not persisted) [%s]",
			i, pre, post, saved, m.history()))
	}
	return false, nil
}

// announce delivers the REPL_ANNOUNCEMENT a winner sends after voteSucced() to member `to`, built as
// ArbiterMember.DoAnnouncement builds it from the winner's state (leader role for the elected host, version + 1,
// the winner's commit id), through the real handler.
func (m *v12Monitor) announce(label string, r v12Round, to int) *v12Err {
	cl := m.cl
	cn, node := cl.nodes[r.Cand], cl.nodes[to]
	ver, seen := m.annVersion[label]
	if !seen {
		// what voteSucced does on the winner before it announces: roles, version, Save
		ver = [2]uint64{uint64(cn.mgr.version) + 1, cn.mgr.vertime + 1 + uint64(len(m.annVersion))}
		m.annVersion[label] = ver
		for j, am := range cn.mgr.members {
			switch {
			case j == r.Host:
				am.role = ARBITER_ROLE_LEADER
				cn.mgr.leaderMember = am
			case am.arbiter != 0:
				am.role = ARBITER_ROLE_ARBITER
			default:
				am.role = ARBITER_ROLE_FOLLOWER
			}
		}
		cn.mgr.version, cn.mgr.vertime = uint32(ver[0]), ver[1]
		if r.Host == r.Cand {
			cn.mgr.voter.proposalHost, cn.mgr.voter.proposalFromHost = "", ""
		}
		_ = cn.mgr.store.Save(cn.mgr)
		cn.persisted = cn.state().commitId
	}
	var members []*protobuf.ReplSetMember
	for _, am := range cn.mgr.members {
		members = append(members, &protobuf.ReplSetMember{Host: am.host, Weight: am.weight, Arbiter: am.arbiter, Role: uint32(am.role)})
	}
	req := &protobuf.ArbiterAnnouncementRequest{FromHost: v12Host(r.Cand), ToHost: v12Host(to), Replset: &protobuf.ReplSet{Name: cn.mgr.name, Gid: cn.mgr.gid,
		Version: uint32(ver[0]), Vertime: ver[1], Owner: v12Host(to), Members: members, CommitId: r.Pid}}
	data, err := proto.Marshal(req)
	if err != nil {
		return v12Fail(v12KeyHarness, "marshal: %v", err)
	}
	pre := node.state()
	res, err := node.mgr.commandHandleAnnouncementCommand(node.tokens[r.Cand], protocol.NewCallCommand("REPL_ANNOUNCEMENT", data))
	if err != nil || res == nil {
		return v12Fail(v12KeyAcceptor, "announcement handler of member %d returned (%v, %v)", to, res, err)
	}
	ok := res.Result == 0 && res.ErrType == ""
	if ok {
		select {
		case <-node.annDone:
		case <-time.After(90 * time.Second):
			fmt.Printf("VERIF-INCONCLUSIVE C12 acceptor: announcement epilogue of member %d did not finish\n", to)
			vFlush()
			os.Exit(3)
		}
	}
	post := node.state()
	m.logf("%s announcement (leader m%d, version %d, commit id %d) -> m%d: %v %s %s", label, r.Host, ver[0], r.Pid, to, ok, res.ErrType, post)
	if post.proposalId < pre.proposalId || post.commitId < pre.commitId {
		return v12Fail(v12KeyRegress, "member %d: numbers went backwards on an announcement: %s -> %s [%s]", to, pre, post, m.history())
	}
	if !ok {
		m.info.class("announcement refused")
		return nil
	}
	m.info.class("announcement processed")
	if pre.host != "" && post.host == "" {
		m.info.class("announcement cleared a pending commit")
	}
	m.announced = true
	m.floor[to] = post.commitId
	node.persisted = post.commitId
	for _, o := range m.open {
		delete(o, label)
	}
	return nil
}

func (m *v12Monitor) finish() *v12Err {
	if len(m.softFails) > 0 {
		return m.softFails[0]
	}
	return nil
}

func v12RunAcceptor(c *v12Case) (v12Info, *v12Err) {
	var info v12Info
	if len(c.Members) < 1 || len(c.Rounds) == 0 {
		return info, v12Fail(v12KeyHarness, "malformed acceptor case")
	}
	for _, r := range c.Rounds {
		if r.Cand < 0 || r.Cand >= len(c.Members) || r.Host < 0 || r.Host >= len(c.Members) || c.Members[r.Cand].Down {
			return info, v12Fail(v12KeyHarness, "malformed round %+v", r)
		}
	}
	cl, e := v12NewCluster(c)
	if cl != nil {
		defer cl.close()
	}
	if e != nil {
		return info, e
	}
	mon := v12NewMonitor(cl, &info)
	runs := make([]*v12RoundRun, len(c.Rounds))
	for i := range runs {
		runs[i] = &v12RoundRun{map[int]bool{}, map[int]bool{}, map[int]bool{}, map[int]bool{}, map[int]bool{}}
	}
	pids := map[uint64]int{}
	for _, r := range c.Rounds {
		pids[r.Pid]++
	}
	for _, s := range c.Script {
		if s.To < 0 || s.To >= len(c.Members) || c.Members[s.To].Down {
			continue
		}
		if s.Op == "restart" {
			isCand := false
			for _, r := range c.Rounds {
				isCand = isCand || r.Cand == s.To
			}
			if isCand {
				continue // a candidate's process carries the candidacy; only pure acceptors restart
			}
			if _, e = mon.restart(s.To); e != nil {
				return info, e
			}
			continue
		}
		if s.Round < 0 || s.Round >= len(c.Rounds) {
			continue
		}
		r, run := c.Rounds[s.Round], runs[s.Round]
		label := fmt.Sprintf("m%d/n%d", r.Cand, r.Pid)
		node := cl.nodes[s.To]
		switch s.Op {
		case "announce":
			// only the holder of a recorded commit majority announces; the winner itself is told nothing (it saved in
			// voteSucced), a weight-0 host would resign at once (QuitLeader needs the replication layer)
			if len(mon.recorded[label]) < cl.majority() || s.To == r.Cand || c.Members[r.Host].Weight == 0 || c.Members[r.Host].Down || run.annSent[s.To] {
				continue
			}
			run.annSent[s.To] = true
			if s.Lost {
				mon.logf("%s announcement -> m%d lost", label, s.To)
				continue
			}
			if e = mon.announce(label, r, s.To); e != nil {
				return info, e
			}
		case "prop":
			if run.propSent[s.To] || len(run.commitSent) > 0 {
				continue
			}
			run.propSent[s.To] = true
			if s.Lost {
				mon.logf("%s proposal -> m%d lost", label, s.To)
				info.class("message lost")
				continue
			}
			pre := node.state()
			ok, why, e := cl.callProposal(r.Cand, s.To, r.Pid, v12Host(r.Host), r.Pos)
			if e != nil {
				return info, e
			}
			if e = mon.afterProposal(label, r.Cand, s.To, r.Pid, r.Pos, pre, node.state(), ok, why); e != nil {
				return info, e
			}
			if ok && !s.LostReply {
				run.acks[s.To] = true
			}
			if pids[r.Pid] > 1 {
				info.class("colliding proposal number delivered")
			}
		case "commit":
			// a protocol-abiding candidate commits only after a majority acknowledged its proposal
			if len(run.acks) < cl.majority() || run.commitSent[s.To] {
				continue
			}
			run.commitSent[s.To] = true
			if s.Lost {
				mon.logf("%s commit -> m%d lost", label, s.To)
				info.class("message lost")
				continue
			}
			pre := node.state()
			ok, why, e := cl.callCommit(r.Cand, s.To, r.Pid, v12Host(r.Host), r.Pos)
			if e != nil {
				return info, e
			}
			if e = mon.afterCommit(label, r.Cand, s.To, r.Pid, v12Host(r.Host), pre, node.state(), ok, why); e != nil {
				return info, e
			}
		}
	}
	if c.Origin > 0xf0000000 {
		info.class("positions around the file-index wrap")
	}
	return info, mon.finish()
}

// v12GenCluster draws members, log positions and candidates shared by layers 2 and 3.
func v12GenCluster(t *rapid.T, c *v12Case) (pool []v12Pos) {
	n := rapid.IntRange(3, 5).Draw(t, "members")
	c.Origin = rapid.SampledFrom([]uint32{1, 1, 7, 0x7ffffffd, 0xfffffffc, 0xfffffffd}).Draw(t, "originIndex")
	np := rapid.IntRange(2, 4).Draw(t, "positions")
	for len(pool) < np {
		dmax := 4
		if vIsKnown(v12KeyCmpOrder) {
			dmax = 0 // known finding excluded by construction: all log positions of a case lie in one aof file
		}
		p := v12Pos{Index: c.Origin + uint32(rapid.IntRange(0, dmax).Draw(t, "dIndex")),
			Offset: uint32(rapid.SampledFrom([]int{0, 1, 5, 4000}).Draw(t, "offset")),
			Time:   uint64(rapid.SampledFrom([]int{1700000000, 1700000001}).Draw(t, "time"))}
		if p.Index == 0xffffffff {
			p.Index = 0 // FindAofFiles cannot enumerate a directory whose only file has index 2^32-1 (not C12's subject)
		}
		pool = append(pool, p)
	}
	commitBase := uint64(rapid.IntRange(0, 2).Draw(t, "commitBase"))
	for i := 0; i < n; i++ {
		m := v12Member{Weight: rapid.SampledFrom([]uint32{1, 1, 1, 2, 0}).Draw(t, "weight"), Pos: rapid.SampledFrom(pool).Draw(t, "pos"),
			Commit: commitBase, Polled: rapid.IntRange(0, 3).Draw(t, "polled") != 0}
		if rapid.IntRange(0, 4).Draw(t, "arbiter") == 0 {
			m.Arbiter = 1
		}
		if rapid.IntRange(0, 3).Draw(t, "staleCommit") == 0 && commitBase > 0 {
			m.Commit = commitBase - 1
		}
		c.Members = append(c.Members, m)
	}
	if rapid.IntRange(0, 3).Draw(t, "oldLeaderDown") == 0 {
		d := rapid.IntRange(0, n-1).Draw(t, "downMember")
		c.Members[d].Down = true
		c.Members[d].Arbiter = 0
	}
	var up []int
	for i, m := range c.Members {
		if !m.Down {
			up = append(up, i)
		}
	}
	nc := rapid.IntRange(2, 3).Draw(t, "candidates")
	if nc > len(up) {
		nc = len(up)
	}
	perm := rapid.Permutation(up).Draw(t, "candOrder")
	c.Cands = append(c.Cands, perm[:nc]...)
	sort.Ints(c.Cands)
	return pool
}

// v12BestHost: the member a candidate that heard from everybody would propose (model order).
func v12BestHost(c *v12Case, among []int) int {
	best := -1
	for _, i := range among {
		m := c.Members[i]
		if m.Arbiter != 0 || m.Weight == 0 || m.Down {
			continue
		}
		if best < 0 {
			best = i
			continue
		}
		b := c.Members[best]
		switch cmp := v12PosCmp(c.Origin, m.Pos, b.Pos); {
		case cmp > 0:
			best = i
		case cmp == 0 && (m.Weight > b.Weight || (m.Weight == b.Weight && v12Host(i) > v12Host(best))):
			best = i
		}
	}
	return best
}

func v12GenAcceptorCase(t *rapid.T) *v12Case {
	c := &v12Case{Layer: "acceptor", SkipForgetfulRestart: vIsKnown(v12KeyRestart)}
	pool := v12GenCluster(t, c)
	var up []int
	for i, m := range c.Members {
		if !m.Down {
			up = append(up, i)
		}
	}
	all := make([]int, len(c.Members))
	for i := range all {
		all[i] = i
	}
	base := c.Members[0].Commit
	for _, cand := range c.Cands {
		nr := rapid.IntRange(1, 2).Draw(t, "rounds")
		pid := base
		for k := 0; k < nr; k++ {
			pid += uint64(rapid.IntRange(1, 2).Draw(t, "pidStep"))
			r := v12Round{Cand: cand, Pid: pid}
			r.Host = v12BestHost(c, up)
			if r.Host < 0 || rapid.IntRange(0, 5).Draw(t, "otherHost") == 0 {
				r.Host = rapid.SampledFrom(all).Draw(t, "host")
			}
			r.Pos = c.Members[r.Host].Pos
			if rapid.IntRange(0, 5).Draw(t, "otherPos") == 0 {
				r.Pos = rapid.SampledFrom(pool).Draw(t, "claimedPos")
			}
			c.Rounds = append(c.Rounds, r)
		}
	}
	// the deck holds every (round, member) proposal and commit once; it is shuffled, a second helping of
	// commits gives rounds that gathered their majority late a chance to go on, and restarts are sprinkled in.
	// The executor skips what a protocol-abiding candidate would not send (commit before a majority of
	// acknowledgements, duplicates).
	var deck []v12Step
	for r := range c.Rounds {
		for _, to := range up {
			deck = append(deck, v12Step{Op: "prop", Round: r, To: to}, v12Step{Op: "commit", Round: r, To: to})
		}
	}
	order := rapid.Permutation(deck).Draw(t, "order")
	var late []v12Step
	for _, s := range order {
		if s.Op == "commit" {
			late = append(late, s)
		}
	}
	keep := rapid.IntRange(len(order)/3, len(order)).Draw(t, "keep")
	order = append(order[:keep:keep], rapid.Permutation(late).Draw(t, "lateOrder")...)
	// epilogue (drawn): the winner - whichever candidacy holds a recorded commit majority by then - announces the new
	// leader, pure acceptors restart from their saved metadata, and delayed proposals / commits of the other
	// candidacies reach the restarted members only now (they are taken out of the main part)
	var epilogue []v12Step
	if rapid.IntRange(0, 9).Draw(t, "epilogue") < 8 {
		isCand := map[int]bool{}
		for _, cand := range c.Cands {
			isCand[cand] = true
		}
		var pure []int
		for _, i := range up {
			if !isCand[i] {
				pure = append(pure, i)
			}
		}
		for r := range c.Rounds {
			for _, to := range rapid.Permutation(up).Draw(t, "annOrder") {
				epilogue = append(epilogue, v12Step{Op: "announce", Round: r, To: to, Lost: rapid.IntRange(0, 9).Draw(t, "annLost") == 0})
			}
		}
		if len(pure) > 0 {
			victims := rapid.Permutation(pure).Draw(t, "victims")
			victims = victims[:rapid.IntRange(1, len(victims)).Draw(t, "victimCount")]
			delayed := map[[2]int]bool{}
			var stale []v12Step
			designate := rapid.IntRange(0, len(c.Rounds)-1).Draw(t, "designatedWinner") // its messages are never delayed
			for _, v := range victims {
				epilogue = append(epilogue, v12Step{Op: "restart", To: v})
				for r := range c.Rounds {
					if r != designate && rapid.IntRange(0, 3).Draw(t, "staleProp") != 0 {
						delayed[[2]int{r, v}] = true
						stale = append(stale, v12Step{Op: "prop", Round: r, To: v}, v12Step{Op: "commit", Round: r, To: v})
					}
				}
			}
			epilogue = append(epilogue, stale...)
			kept := order[:0:0]
			for _, s := range order {
				if delayed[[2]int{s.Round, s.To}] {
					continue
				}
				kept = append(kept, s)
			}
			order = kept
		}
	}
	for _, s := range order {
		switch rapid.IntRange(0, 13).Draw(t, "fate") {
		case 0:
			s.Lost = true
		case 1:
			s.LostReply = true
		case 2:
			c.Script = append(c.Script, v12Step{Op: "restart", To: rapid.SampledFrom(up).Draw(t, "restartWho")})
		}
		c.Script = append(c.Script, s)
	}
	c.Script = append(c.Script, epilogue...)
	return c
}

func TestC12_Acceptor(t *testing.T) {
	rapid.Check(t, v12Prop("TestC12_Acceptor", v12GenAcceptorCase, v12RunAcceptor))
}

// ---------------------------------------------------------------------------------------------
// replay of committed / freshly found cases without rapid

func v12RunCase(c *v12Case) (v12Info, *v12Err) {
	saved := Config
	defer func() { Config = saved }()
	return v12Guard(func() (v12Info, *v12Err) {
		switch c.Layer {
		case "pure":
			return v12RunPure(c)
		case "acceptor":
			return v12RunAcceptor(c)
		case "voter":
			return v12RunVoter(c)
		}
		return v12Info{}, v12Fail(v12KeyHarness, "unknown layer %q", c.Layer)
	})
}

func TestC12_Replay(t *testing.T) {
	for _, f := range vReplayFiles("C12") {
		var c v12Case
		key, err := vLoadReplay(f, &c)
		if err != nil {
			t.Fatalf("cannot load replay %s: %v", f, err)
		}
		_, rerr := v12RunCase(&c)
		msg, got := "<nil>", ""
		if rerr != nil {
			msg, got = rerr.msg, rerr.key
		}
		fmt.Printf("VERIF-KF key=%s reproduced=%v file=%s got=%s %s\n", key, rerr != nil && got == key, f, got, msg)
	}
}

var _ = errors.New
