package server

// C03 over the text protocol: generator, rapid property and replay (executor: c03t_engine_test.go).
//
// The replay test is called TestC03_TxtReplay on purpose: engine A/B's replay unit selects `^TestC03_Replay`
// and `TestC03_TextReplay` would be matched by nothing of that, but any `^TestC03_Text` style regex of the
// property unit must not pick the replay up either. Unit regexes: ^TestC03_TextReplies$ / ^TestC03_TxtReplay$.

import (
	"fmt"
	"os"
	"path/filepath"
	"sort"
	"strings"
	"testing"

	"pgregory.net/rapid"
)

// known findings of the text reply path (excluded by construction while listed as known)
const (
	t03KeyPush = "C03:text:push-result-answers-next-command" // PUSH leaves its lock result in the reply channel
)

func t03Gen(t *rapid.T, st *vStat) *t03Case {
	knownPush := vIsKnown(t03KeyPush)
	pct := func(label string) int { return rapid.IntRange(0, 99).Draw(t, label) }
	c := &t03Case{Text: rapid.IntRange(1, 3).Draw(t, "text"), Binary: pct("binary") >= 70}
	nConn := c.Text
	if c.Binary {
		nConn++
	}
	nKeys := rapid.IntRange(1, 3).Draw(t, "keys")
	type idInfo struct{ key, id, e, conn int }
	var ids []idInfo
	nextId := 0
	nSteps := rapid.IntRange(3, 26).Draw(t, "steps")
	pushExcluded := false
	for i := 0; i < nSteps; i++ {
		if pct("tick") >= 72 {
			c.Steps = append(c.Steps, t03Step{K: "tick", N: rapid.IntRange(1, 4).Draw(t, "N")})
			continue
		}
		s := t03Step{C: rapid.IntRange(0, nConn-1).Draw(t, "conn")}
		kind := pct("kind")
		switch {
		case kind < 55:
			s.K = "lock"
		case kind < 85:
			s.K = "unlock"
		default:
			s.K = "push"
			if s.C >= c.Text {
				s.K = "lock"
			} else if knownPush {
				pushExcluded = true
				s.K = "lock"
			}
		}
		if s.K == "unlock" {
			var own []idInfo
			for _, x := range ids {
				if x.conn == s.C {
					own = append(own, x)
				}
			}
			switch {
			case len(own) > 0 && pct("own") < 70:
				x := own[rapid.IntRange(0, len(own)-1).Draw(t, "ownid")]
				s.Key, s.Id = x.key, x.id
			case len(ids) > 0 && pct("any") < 70:
				x := ids[rapid.IntRange(0, len(ids)-1).Draw(t, "anyid")]
				s.Key, s.Id = x.key, x.id
			default:
				s.Key, s.Id = rapid.IntRange(0, nKeys-1).Draw(t, "key"), nextId
				nextId++
			}
			if pct("urc") >= 75 {
				s.Rc = 1
			}
			c.Steps = append(c.Steps, s)
			continue
		}
		// lock / push
		if len(ids) > 0 && pct("reuse") >= 78 {
			x := ids[rapid.IntRange(0, len(ids)-1).Draw(t, "reuseid")]
			// a re-stated hold keeps its Expried (a shortened expiry is honoured one sweep late: C06 territory)
			s.Key, s.Id, s.E = x.key, x.id, x.e
		} else {
			s.Key, s.Id, s.E = rapid.IntRange(0, nKeys-1).Draw(t, "key"), nextId, rapid.IntRange(1, 5).Draw(t, "E")
			nextId++
			ids = append(ids, idInfo{s.Key, s.Id, s.E, s.C})
		}
		s.T = rapid.IntRange(0, 3).Draw(t, "T")
		if pct("cnt") >= 65 {
			s.Cnt = rapid.IntRange(1, 2).Draw(t, "Cnt")
		}
		if pct("rc") >= 65 {
			s.Rc = rapid.IntRange(1, 2).Draw(t, "Rc")
		}
		c.Steps = append(c.Steps, s)
	}
	if pushExcluded {
		st.Exclude("PUSH on a text connection (" + t03KeyPush + ")")
	}
	return c
}

func t03Classes(info *t03Info) []string {
	var out []string
	for k := range info.Results {
		out = append(out, "reply:"+k)
	}
	sort.Strings(out)
	if info.Blocked > 0 {
		out = append(out, "text-command-waited-in-queue")
	}
	if info.ExpiredIdle > 0 {
		out = append(out, "hold-of-idle-text-connection-expired")
	}
	if info.Nontrivial > 0 {
		out = append(out, "nontrivial:lock-type-command-after-idle-expiry")
	}
	if info.Pushes > 0 {
		out = append(out, "push")
	}
	return out
}

func TestC03_TextReplies(t *testing.T) {
	st := vstat("TestC03_TextReplies")
	rapid.Check(t, func(t *rapid.T) {
		c := t03Gen(t, st)
		info, viol, err := t03Execute(c)
		st.Case(info.Nontrivial > 0, c.fingerprint(), t03Classes(&info), func() interface{} { return c })
		if err != nil {
			d18Abort(err.Error())
		}
		if viol != nil {
			vFail(t, "TestC03_TextReplies", viol.Key, c, "%s", viol.Msg)
		}
	})
}

// TestC03_TxtReplay replays replays/C03/text-*.json (the other files of that directory belong to
// TestC03_Replay / TestC03_ReplayB, which skip these: no "ops", no "threads").
func TestC03_TxtReplay(t *testing.T) {
	for _, f := range vReplayFiles("C03") {
		if !strings.HasPrefix(filepath.Base(f), "text-") && os.Getenv("VERIF_REPLAY") == "" {
			continue
		}
		var c t03Case
		key, err := vLoadReplay(f, &c)
		if err != nil || c.Text == 0 || len(c.Steps) == 0 {
			if strings.HasPrefix(filepath.Base(f), "text-") {
				t.Fatalf("cannot load replay %s: %v", f, err)
			}
			continue // VERIF_REPLAY names a case of another C03 test
		}
		_, viol, rerr := t03Execute(&c)
		if rerr != nil {
			fmt.Printf("VERIF-NOTE replay %s inconclusive: %v\n", f, rerr)
			continue
		}
		got, msg := "", "no violation"
		if viol != nil {
			got, msg = " observed-key="+viol.Key, d18Head(strings.ReplaceAll(viol.Msg, "\n", " | "), 700)
		}
		fmt.Printf("VERIF-KF key=%s reproduced=%v file=%s%s %s\n", key, viol != nil && viol.Key == key, f, got, msg)
	}
	_ = os.Stdout.Sync()
}
