#!/usr/bin/env python3
"""Sensitivity mutants written by hand (DESIGN §5 'S' lines). Each is applied in a scratch worktree of /repo
(outside /repo and /verif), the named checks are run against it with VERIF_REPO, and the worktree is removed.

  tools/mutants.py list
  tools/mutants.py run <id>[,<id>...] [--tier quick] [--props C01,C03] [--baseline]
"""
import argparse, json, os, shutil, subprocess, sys, tempfile, time

VERIF = os.path.dirname(os.path.dirname(os.path.abspath(__file__)))
ENV = dict(os.environ, GOFLAGS="-mod=mod", GOPROXY="off", GOSUMDB="off", GOTOOLCHAIN="local")

M = {}

def mut(id, file, old, new, props, note="", count=1):
    M[id] = dict(id=id, file=file, old=old, new=new, props=props, note=note, count=count)

# ---- C01
mut("c01-drop-holder-count", "server/db.go",
    "	if lockManager.locked <= uint32(lockManager.currentLock.command.Count) {\n		if lockManager.locked <= uint32(lock.command.Count) {",
    "	if true {\n		if lockManager.locked <= uint32(lock.command.Count) {", ["C01"], "admission ignores the oldest holder's Count")
mut("c01-count0-admits", "server/db.go",
    "	if lock.command.Count == 0 {\n		return false\n	}\n	if lockManager.locked >= 0xffff {",
    "	if lock.command.Count == 0 {\n		return lockManager.locked <= 1 && lockManager.currentLock.command.Count > 0\n	}\n	if lockManager.locked >= 0xffff {", ["C01"], "Count 0 admits a second holder")
mut("c01-off-by-one", "server/db.go",
    "		if lockManager.locked <= uint32(lock.command.Count) {\n			if lock.command.TimeoutFlag&protocol.TIMEOUT_FLAG_LESS_LOCK_VERSION_IS_LOCK_SUCCED != 0 {\n				if self.compareLockVersion(lock.command.LockId, lockManager.currentLock.command.LockId) == 1 {\n					return false\n				}\n			}\n			return true\n		}\n	}\n	return false\n}",
    "		if lockManager.locked <= uint32(lock.command.Count)+1 {\n			if lock.command.TimeoutFlag&protocol.TIMEOUT_FLAG_LESS_LOCK_VERSION_IS_LOCK_SUCCED != 0 {\n				if self.compareLockVersion(lock.command.LockId, lockManager.currentLock.command.LockId) == 1 {\n					return false\n				}\n			}\n			return true\n		}\n	}\n	return false\n}", ["C01"], "request Count off by one")
# ---- C02
mut("c02-rcount-lt", "server/db.go",
    "currentLock.locked < 0xff && currentLock.locked <= command.Rcount && command.TimeoutFlag&protocol.TIMEOUT_FLAG_RCOUNT_IS_PRIORITY == 0",
    "currentLock.locked < 0xff && currentLock.locked < command.Rcount && command.TimeoutFlag&protocol.TIMEOUT_FLAG_RCOUNT_IS_PRIORITY == 0", ["C02"], "re-entrant bound < instead of <=")
mut("c02-rcount0-one-level", "server/db.go",
    "		if command.Rcount > 0 && command.TimeoutFlag&protocol.TIMEOUT_FLAG_RCOUNT_IS_PRIORITY == 0 {\n			currentLock.locked--",
    "		if command.TimeoutFlag&protocol.TIMEOUT_FLAG_RCOUNT_IS_PRIORITY == 0 {\n			currentLock.locked--", ["C02"], "unlock Rcount=0 removes one level only")
mut("c02-getlock-ignores-released", "server/lock.go",
    "			if lock.locked > 0 && lock.command.LockId == command.LockId {\n				return lock\n			}",
    "			if lock.command.LockId == command.LockId {\n				return lock\n			}", ["C02", "C17"], "released holder still matches a LockId lookup")
# ---- C03
mut("c03-no-timeouted-on-wake", "server/db.go",
    "	waitLock.timeouted = true\n	if waitLock.longWaitIndex > 0 {\n		self.RemoveLongTimeOut(waitLock)\n	}\n\n	if waitLock.command.Expried > 0 {",
    "	if waitLock.longWaitIndex > 0 {\n		self.RemoveLongTimeOut(waitLock)\n	}\n\n	if waitLock.command.Expried > 0 {", ["C03", "C05"], "granted waiter not tombstoned: later TIMEOUT too")
mut("c03-cancel-no-reply", "server/db.go",
    "	_ = lockProtocol.ProcessLockResultCommandLocked(lockCommand, protocol.RESULT_UNLOCK_ERROR, uint16(lockManager.locked), waitLock.locked, lockManager.GetLockData())\n	_ = lockProtocol.FreeLockCommandLocked(lockCommand)\n\n	if lockLocked > 0 {",
    "	_ = lockProtocol.FreeLockCommandLocked(lockCommand)\n\n	if lockLocked > 0 {", ["C03", "C02"], "cancelled request never answered")
# ---- C04
mut("c04-wake-one-only", "server/db.go",
    "			self.wakeUpWaitLock(lockManager, waitLock, serverProtocol)\n			lockManager.glock.Lock()\n			waitLock = lockManager.GetWaitLock()",
    "			self.wakeUpWaitLock(lockManager, waitLock, serverProtocol)\n			return", ["C04"], "wake-up pass stops after the first grant")
mut("c04-no-wake-on-expiry", "server/db.go",
    "	self.wakeUpWaitLocks(lockManager, nil)\n	if expriedFlag&protocol.EXPRIED_FLAG_REVERSE_KEY_LOCK_WHEN_EXPRIED != 0 {",
    "	if expriedFlag&protocol.EXPRIED_FLAG_REVERSE_KEY_LOCK_WHEN_EXPRIED != 0 {", ["C04", "C06"], "no wake-up pass after an expiry")
mut("c04-never-priority-ring", "server/lock.go",
    "			if self.waitLocks.Head() != nil && lockPriority != self.waitLocks.MaxPriority() {\n				self.waitLocks.RePushPriorityRingQueue()\n			}",
    "			if self.waitLocks.Head() != nil && lockPriority == 254 && lockPriority == 253 {\n				self.waitLocks.RePushPriorityRingQueue()\n			}", ["C04"], "queue never switches to the priority ring")
# ---- C05
mut("c05-timeout-plus4", "server/lock.go",
    "			lock.timeoutTime = now + int64(command.Timeout) + 1\n		}\n	} else {\n		lock.timeoutTime = now + int64(command.Timeout)/1000 + 1\n	}\n	lock.timeoutCheckedCount = 1",
    "			lock.timeoutTime = now + int64(command.Timeout) + 4\n		}\n	} else {\n		lock.timeoutTime = now + int64(command.Timeout)/1000 + 1\n	}\n	lock.timeoutCheckedCount = 1", ["C05"], "timeouts fire 3 s late")
mut("c05-timeout-no-plus1", "server/lock.go",
    "			lock.timeoutTime = now + int64(command.Timeout) + 1\n		}\n	} else {\n		lock.timeoutTime = now + int64(command.Timeout)/1000 + 1\n	}\n	lock.timeoutCheckedCount = 1",
    "			lock.timeoutTime = now + int64(command.Timeout)\n		}\n	} else {\n		lock.timeoutTime = now + int64(command.Timeout)/1000 + 1\n	}\n	lock.timeoutCheckedCount = 1", [], "ALLOWED by the statement: must NOT alarm (C05)")
mut("c05-timeout-early", "server/lock.go",
    "			lock.timeoutTime = now + int64(command.Timeout) + 1\n		}\n	} else {\n		lock.timeoutTime = now + int64(command.Timeout)/1000 + 1\n	}\n	lock.timeoutCheckedCount = 1",
    "			lock.timeoutTime = now + int64(command.Timeout) - 1\n		}\n	} else {\n		lock.timeoutTime = now + int64(command.Timeout)/1000 + 1\n	}\n	lock.timeoutCheckedCount = 1", ["C05"], "timeouts fire 1 s early")
# ---- C06
mut("c06-update-no-restart", "server/lock.go",
    "	if command.ExpriedFlag&protocol.EXPRIED_FLAG_UNLIMITED_EXPRIED_TIME == 0 || command.Expried < 0xffff {\n		lock.startTime = self.lockDb.currentTime\n",
    "	if command.ExpriedFlag&protocol.EXPRIED_FLAG_UNLIMITED_EXPRIED_TIME == 0 || command.Expried < 0xffff {\n", ["C06"], "update / re-lock does not restart the expiry period")
mut("c06-minute-as-second", "server/lock.go",
    "				lock.expriedTime = lock.startTime + int64(lock.command.Expried)*60 + 1\n			} else {\n				lock.expriedTime = lock.startTime + int64(lock.command.Expried) + 1\n			}\n		} else {\n			lock.expriedTime = lock.startTime + int64(lock.command.Expried)/1000 + 1\n		}\n\n		if lock.command.ExpriedFlag&protocol.EXPRIED_FLAG_ZEOR_AOF_TIME != 0 && lock.expriedTime-lock.startTime > 5 {\n			lock.expriedCheckedCount = EXPRIED_QUEUE_MAX_WAIT + 1\n		} else {\n			lock.expriedCheckedCount = 1\n		}\n	}\n\n	if self.currentLock == nil {",
    "				lock.expriedTime = lock.startTime + int64(lock.command.Expried) + 1\n			} else {\n				lock.expriedTime = lock.startTime + int64(lock.command.Expried) + 1\n			}\n		} else {\n			lock.expriedTime = lock.startTime + int64(lock.command.Expried)/1000 + 1\n		}\n\n		if lock.command.ExpriedFlag&protocol.EXPRIED_FLAG_ZEOR_AOF_TIME != 0 && lock.expriedTime-lock.startTime > 5 {\n			lock.expriedCheckedCount = EXPRIED_QUEUE_MAX_WAIT + 1\n		} else {\n			lock.expriedCheckedCount = 1\n		}\n	}\n\n	if self.currentLock == nil {", ["C06"], "minute-flag expiry treated as seconds (early expiry)")
# ---- C15
mut("c15-reply-after-value", "server/db.go",
    "			lockData := lockManager.GetLockData()\n			if command.Flag&protocol.LOCK_FLAG_CONTAINS_DATA != 0 {\n				lockManager.ProcessLockData(command, lock, false)\n			}\n			if command.ExpriedFlag&protocol.EXPRIED_FLAG_MILLISECOND_TIME == 0 {\n				self.AddExpried(lock)",
    "			if command.Flag&protocol.LOCK_FLAG_CONTAINS_DATA != 0 {\n				lockManager.ProcessLockData(command, lock, false)\n			}\n			lockData := lockManager.GetLockData()\n			if command.ExpriedFlag&protocol.EXPRIED_FLAG_MILLISECOND_TIME == 0 {\n				self.AddExpried(lock)", ["C15"], "lock reply carries the value after the operation")
mut("c15-append-wrong-offset", "server/lock.go",
    "			copy(data[len(self.currentData.data):], lockCommandData.GetBytesValue())",
    "			copy(data[len(self.currentData.data):], lockCommandData.Data[6:])", ["C15"], "APPEND copies from the wrong offset when the operand has a property header")
# ---- C17
mut("c17-cancel-no-waitcount", "server/db.go",
    "		if lockManager.GetWaitLock() == nil {\n			lockManager.waited = false\n		}\n		lockManager.state.WaitCount--\n	}\n\n	if lockManager.refCount == 0 {",
    "		if lockManager.GetWaitLock() == nil {\n			lockManager.waited = false\n		}\n	}\n\n	if lockManager.refCount == 0 {", ["C17"], "cancelWaitLock forgets WaitCount--")
mut("c17-remove-manager-keeps-data", "server/db.go",
    "			lockManager.currentData = nil\n			atomic.AddUint32(&lockManager.state.KeyCount, 0xffffffff)\n			return\n		}\n\n		lockManager.currentLock = nil",
    "			atomic.AddUint32(&lockManager.state.KeyCount, 0xffffffff)\n			return\n		}\n\n		lockManager.currentLock = nil", ["C17", "C15"], "recycled key manager keeps the old value")
mut("c17-lcount-off", "server/db.go",
    "			_ = serverProtocol.ProcessLockResultCommand(command, protocol.RESULT_SUCCED, uint16(lockManager.locked), lock.locked, lockData)\n			if requireWakeup {\n				self.wakeUpWaitLocks(lockManager, serverProtocol)\n			}\n			return nil\n		}\n\n		lockData := lockManager.GetLockData()",
    "			_ = serverProtocol.ProcessLockResultCommand(command, protocol.RESULT_SUCCED, uint16(lockManager.locked)-1, lock.locked, lockData)\n			if requireWakeup {\n				self.wakeUpWaitLocks(lockManager, serverProtocol)\n			}\n			return nil\n		}\n\n		lockData := lockManager.GetLockData()", ["C17"], "LCount of a grant off by one")
# ---- C20
mut("c20-tail-off-by-one", "server/queue.go",
    "		return self.queues[self.tailNodeIndex-1][self.nodeQueueSizes[self.tailNodeIndex-1]-1]\n	}\n	return self.tailQueue[self.tailQueueIndex-1]\n}\n\nfunc (self *LockQueue) Shrink",
    "		return self.queues[self.tailNodeIndex-1][self.nodeQueueSizes[self.tailNodeIndex-1]-2]\n	}\n	return self.tailQueue[self.tailQueueIndex-1]\n}\n\nfunc (self *LockQueue) Shrink", ["C20"], "Tail off by one at a node boundary")
mut("c20-resize-forgets-sizes", "server/queue.go",
    "		self.queues[i-moveIndex] = self.queues[i]\n		self.nodeQueueSizes[i-moveIndex] = self.nodeQueueSizes[i]\n		self.queues[i] = nil\n		self.nodeQueueSizes[i] = 0\n		self.nodeIndex++\n	}\n	self.queueSize = self.baseQueueSize * int32(uint32(1)<<uint32(self.tailNodeIndex))\n	self.headNodeIndex -= moveIndex\n	self.tailNodeIndex -= moveIndex\n	return nil\n}\n\nfunc (self *LockQueue) Restructuring",
    "		self.queues[i-moveIndex] = self.queues[i]\n		self.queues[i] = nil\n		self.nodeQueueSizes[i] = 0\n		self.nodeIndex++\n	}\n	self.queueSize = self.baseQueueSize * int32(uint32(1)<<uint32(self.tailNodeIndex))\n	self.headNodeIndex -= moveIndex\n	self.tailNodeIndex -= moveIndex\n	return nil\n}\n\nfunc (self *LockQueue) Restructuring", ["C20"], "Resize forgets to move nodeQueueSizes")
mut("c20-prio-ring-order", "server/lock.go",
    "			if node.priority > priorityNode.priority {\n				self.priorityNodes = append(self.priorityNodes, node)",
    "			if node.priority >= priorityNode.priority+2 {\n				self.priorityNodes = append(self.priorityNodes, node)", ["C20", "C04"], "priority ring inserts adjacent priorities in the wrong order")


def sh(cmd, **kw):
    return subprocess.run(cmd, shell=True, text=True, capture_output=True, **kw)


def run_one(mid, tier, props, baseline):
    m = M[mid]
    wt = tempfile.mkdtemp(prefix="verif-mut-")
    os.rmdir(wt)
    r = sh(f"git -C /repo worktree add -q --detach {wt} HEAD")
    if r.returncode != 0:
        print(mid, "worktree failed", r.stderr)
        return
    res = {"id": mid, "note": m["note"], "results": {}}
    try:
        p = os.path.join(wt, m["file"])
        s = open(p).read()
        if s.count(m["old"]) != m["count"]:
            print(f"{mid}: pattern occurs {s.count(m['old'])} times (expected {m['count']}) - mutant is stale")
            return
        open(p, "w").write(s.replace(m["old"], m["new"]))
        r = subprocess.run("go build ./...", shell=True, cwd=wt, env=ENV, capture_output=True, text=True)
        if r.returncode != 0:
            print(mid, "does not compile:", r.stderr[-500:])
            return
        if baseline:
            r = subprocess.run("go test -vet=off -count=1 ./server ./protocol", shell=True, cwd=wt, env=ENV, capture_output=True, text=True)
            res["baseline_pass"] = r.returncode == 0
        out = os.path.join(tempfile.gettempdir(), "verif-mut-out-" + mid)
        for prop in (props or m["props"] or ["C05"]):
            t0 = time.time()
            env = dict(ENV, VERIF_REPO=wt, VERIF_OUT=out)
            r = subprocess.run([os.path.join(VERIF, "check"), prop, "--tier", tier], env=env, capture_output=True, text=True)
            verdict = {0: "held", 1: "VIOLATION", 2: "inconclusive"}.get(r.returncode, str(r.returncode))
            keys = sorted(set(l.split("key=")[1].split()[0] for l in r.stderr.splitlines() if "key=" in l))[:3]
            res["results"][prop] = {"verdict": verdict, "wall_s": round(time.time() - t0, 1), "keys": keys}
        shutil.rmtree(out, ignore_errors=True)
    finally:
        sh(f"git -C /repo worktree remove --force {wt}")
        shutil.rmtree(wt, ignore_errors=True)
    print(json.dumps(res))
    return res


def main():
    ap = argparse.ArgumentParser()
    ap.add_argument("cmd", choices=["list", "run"])
    ap.add_argument("ids", nargs="?")
    ap.add_argument("--tier", default="quick")
    ap.add_argument("--props")
    ap.add_argument("--baseline", action="store_true")
    a = ap.parse_args()
    if a.cmd == "list":
        for k, m in M.items():
            print(k, m["props"], "-", m["note"])
        return
    ids = list(M) if a.ids in (None, "all") else a.ids.split(",")
    for mid in ids:
        run_one(mid, a.tier, a.props.split(",") if a.props else None, a.baseline)


if __name__ == "__main__":
    main()
