package server

// C09 (b): followers apply the leader's log exactly and converge - engine N (c09_engine_test.go).

import (
	"encoding/json"
	"fmt"
	"os"
	"path/filepath"
	"sync"
	"sync/atomic"
	"testing"

	"pgregory.net/rapid"
)

// n09GenBigVal: a value whose log record does not fit the sender's 4096-byte batch buffer (64 + 6 + payload > 4096),
// or sits right at that boundary.
func n09GenBigVal(t *rapid.T) *n09Val {
	v := &n09Val{Op: rapid.SampledFrom([]string{"set", "set", "append"}).Draw(t, "bigop"), N: int64(rapid.IntRange(0, 1000).Draw(t, "bigseed"))}
	if rapid.Bool().Draw(t, "boundary") {
		v.L = rapid.IntRange(4000, 4100).Draw(t, "bigLen")
	} else {
		v.L = rapid.IntRange(5000, 9000).Draw(t, "bigLen")
	}
	return v
}

func n09GenVal(t *rapid.T) *n09Val {
	if sc := rapid.IntRange(0, 99).Draw(t, "sizeclass"); sc >= 48 && sc < 52 {
		return n09GenBigVal(t)
	}
	switch rapid.IntRange(0, 2).Draw(t, "valop") {
	case 0:
		return &n09Val{Op: "set", B: rapid.SliceOfN(rapid.Byte(), 0, 12).Draw(t, "setb")}
	case 1:
		return &n09Val{Op: "incr", N: int64(rapid.IntRange(-5, 1000).Draw(t, "incr"))}
	}
	return &n09Val{Op: "append", B: rapid.SliceOfN(rapid.Byte(), 1, 8).Draw(t, "appb")}
}

func n09GenLock(t *rapid.T, keys int) n09Op {
	op := n09Op{K: "lock"}
	op.Db = rapid.SampledFrom([]int{0, 0, 0, 1}).Draw(t, "db")
	op.Key = rapid.IntRange(0, keys-1).Draw(t, "key")
	op.Id = rapid.IntRange(0, 2).Draw(t, "id")
	if rapid.IntRange(0, 99).Draw(t, "upd") < 15 {
		op.Flag = 0x02
	}
	op.E = rapid.SampledFrom([]int{60, 61, 90, 120, 300, 600, 3600}).Draw(t, "e")
	op.EF = 0x0100 // persist immediately
	if rapid.IntRange(0, 99).Draw(t, "unl") < 12 {
		op.EF |= 0x4000
	}
	op.Cnt = rapid.SampledFrom([]int{0, 0, 1, 2, 2}).Draw(t, "cnt")
	op.Rc = rapid.SampledFrom([]int{0, 0, 1, 2, 3}).Draw(t, "rc")
	if rapid.IntRange(0, 99).Draw(t, "hasval") < 30 {
		op.V = n09GenVal(t)
	}
	return op
}

func n09GenCluster(t *rapid.T) *n09Case {
	c := &n09Case{Kind: "cluster"}
	c.Ring = rapid.SampledFrom([]int{128, 256, 512, 4096, 65536}).Draw(t, "ring")
	c.RingMax = c.Ring * rapid.SampledFrom([]int{1, 2, 4}).Draw(t, "ringmaxf")
	c.Followers = rapid.SampledFrom([]int{1, 1, 2}).Draw(t, "followers")
	// aof_file_buffer_size of the nodes: mostly the default (64 records), sometimes 1, 2 or 16 records
	c.FileBuf = rapid.SampledFrom([]int{0, 0, 0, 0, 64, 64, 128, 1024}).Draw(t, "filebuf")
	keys := rapid.IntRange(1, 4).Draw(t, "keys")
	nops := rapid.IntRange(6, 48).Draw(t, "nops")
	joined := make([]bool, c.Followers)
	stalled := make([]bool, c.Followers)
	type hold struct{ db, key, id int }
	var holds []hold
	// when follower 0 first joins: before / in the middle of / after the workload
	firstJoin := rapid.SampledFrom([]int{0, 1, nops / 3, nops / 2, nops - 1, nops + 1}).Draw(t, "firstJoin")
	if rapid.IntRange(0, 9).Draw(t, "joinBeforeAnything") == 0 {
		c.Ops = append(c.Ops, n09Op{K: "join", F: 0})
		joined[0] = true
	}
	c.Ops = append(c.Ops, n09GenLock(t, keys))
	restarts := rapid.IntRange(0, 3).Draw(t, "mayRestart") == 0
	if rapid.IntRange(0, 7).Draw(t, "restartScenario") == 0 {
		// workload, quiesce, restart the leader, a follower joins (mostly with an empty directory) BEFORE the leader's
		// first new write - so that everything it gets is the restarted leader's log - then more workload
		pre := rapid.IntRange(0, 6).Draw(t, "preRestart")
		for i := 0; i < pre; i++ {
			c.Ops = append(c.Ops, n09GenLock(t, keys))
		}
		if joined[0] {
			c.Ops = append(c.Ops, n09Op{K: "sync"})
		}
		c.Ops = append(c.Ops, n09Op{K: "restart"}, n09Op{K: "join", F: 0, Wipe: rapid.IntRange(0, 3).Draw(t, "wipeAfterRestart") > 0})
		if rapid.Bool().Draw(t, "syncAfterJoin") {
			c.Ops = append(c.Ops, n09Op{K: "sync"})
		}
		for f := range joined {
			joined[f] = f == 0
		}
		firstJoin = -1
	}
	if sc := rapid.IntRange(0, 99).Draw(t, "scenario"); sc >= 8 && sc < 28 && firstJoin >= 0 {
		// the connection dies right behind a burst that fills the follower's file buffer a whole number of times: the
		// follower is in step, its log mutex is held while 1..4 buffers' worth of records (sometimes one more) arrive,
		// the connection is cut, the log append goes on; reconnect (resume by id), check; once or twice
		c.Ring, c.RingMax = 65536, 262144 // the position the follower resumes from stays in the ring
		c.FileBuf = rapid.SampledFrom([]int{64, 128, 128, 1024, 1024, 4096}).Draw(t, "cutFilebuf")
		per := c.FileBuf / 64
		if !joined[0] {
			c.Ops = append(c.Ops, n09Op{K: "join", F: 0})
			joined[0] = true
		}
		for j, n := 0, rapid.IntRange(1, 2).Draw(t, "burstCuts"); j < n; j++ {
			k := rapid.IntRange(1, 4).Draw(t, "buffers")
			for k > 1 && k*per > 64 {
				k-- // everything must fit the follower's append queue (64 records): nothing of the burst is appended early
			}
			nrec := k * per
			if rapid.IntRange(0, 5).Draw(t, "oneMore") == 0 {
				nrec++
			}
			c.Ops = append(c.Ops, n09Op{K: "sync"}, n09Op{K: "fburst", F: 0, N: nrec, Cut: true})
			if rapid.Bool().Draw(t, "moreAfterCut") {
				c.Ops = append(c.Ops, n09GenLock(t, keys))
			}
		}
		c.Ops = append(c.Ops, n09Op{K: "sync"})
		if rapid.IntRange(0, 3).Draw(t, "restartFollowerAfterCut") == 0 {
			c.Ops = append(c.Ops, n09Op{K: "stop", F: 0}, n09GenLock(t, keys), n09Op{K: "join", F: 0}, n09Op{K: "sync"})
		}
		firstJoin = -1
	} else if sc >= 30 && sc < 58 && firstJoin >= 0 {
		// a follower whose log append falls far behind a burst of the leader: joined and in step, then 300..600 records
		// while its log mutex is held, a check, and (mostly) a restart of that follower from its own directory
		c.Ring, c.RingMax = 65536, 262144 // 1024 records: the burst stays in the ring
		if !joined[0] {
			c.Ops = append(c.Ops, n09Op{K: "join", F: 0})
			joined[0] = true
		}
		c.Ops = append(c.Ops, n09Op{K: "sync"}, n09Op{K: "fburst", F: 0, N: rapid.IntRange(300, 600).Draw(t, "burstN")}, n09Op{K: "sync"})
		if rapid.IntRange(0, 3).Draw(t, "restartFollower") > 0 {
			c.Ops = append(c.Ops, n09Op{K: "stop", F: 0}, n09GenLock(t, keys), n09Op{K: "join", F: 0}, n09Op{K: "sync"})
		}
		firstJoin = -1
	} else if sc >= 60 && sc < 80 && firstJoin >= 0 {
		// holds that are dead by the time a log file is read with the expiry filter: value-carrying records with a 1 s
		// expiry, more value records behind them in the same file, a pause of wall time, then the follower joins by file
		// transfer - or, if it was there from the start, is restarted from its own directory
		stale := rapid.Bool().Draw(t, "expiryStale")
		if stale && !joined[0] {
			c.Ops = append(c.Ops, n09Op{K: "join", F: 0})
			joined[0] = true
		}
		c.Ops = append(c.Ops, n09Op{K: "shortlived", N: rapid.IntRange(1, 3).Draw(t, "shortN")})
		for j, n := 0, rapid.IntRange(2, 4).Draw(t, "behind"); j < n; j++ {
			op := n09GenLock(t, keys)
			op.Flag, op.V = 0, n09GenVal(t)
			if op.V.Op == "incr" {
				op.V = &n09Val{Op: "set", B: []byte{byte(j), 0x77}}
			}
			op.Key, op.Id = j%keys, j%3
			c.Ops = append(c.Ops, op)
		}
		if stale {
			c.Ops = append(c.Ops, n09Op{K: "sync"}, n09Op{K: "stop", F: 0})
		}
		c.Ops = append(c.Ops, n09Op{K: "pause", N: 3200}, n09Op{K: "join", F: 0}, n09Op{K: "sync"})
		joined[0] = true
		firstJoin = -1
	}
	for i := 0; i < nops; i++ {
		if i == firstJoin && !joined[0] {
			c.Ops = append(c.Ops, n09Op{K: "join", F: 0})
			joined[0] = true
		}
		if b := rapid.IntRange(0, 199).Draw(t, "burst"); b >= 95 && b < 102 { // a window in the middle: rapid favours the ends of a range
			// a burst on one key: holder a has it, some small records, a releases it and holder b takes it with a big
			// value - with the sender's socket write held for the duration (half of the time), so that the records
			// leave in one batch
			db, key := rapid.SampledFrom([]int{0, 0, 1}).Draw(t, "bdb"), rapid.IntRange(0, keys-1).Draw(t, "bkey")
			a := rapid.IntRange(0, 2).Draw(t, "ba")
			b := (a + 1 + rapid.IntRange(0, 1).Draw(t, "bb")) % 3
			held := rapid.Bool().Draw(t, "bheld")
			c.Ops = append(c.Ops, n09Op{K: "lock", Db: db, Key: key, Id: a, E: 300, EF: 0x0100})
			if held {
				c.Ops = append(c.Ops, n09Op{K: "hold"})
			}
			for j, n := 0, rapid.IntRange(0, 3).Draw(t, "bsmall"); j < n; j++ {
				c.Ops = append(c.Ops, n09GenLock(t, keys))
			}
			c.Ops = append(c.Ops, n09Op{K: "unlock", Db: db, Key: key, Id: a})
			c.Ops = append(c.Ops, n09Op{K: "lock", Db: db, Key: key, Id: b, E: 300, EF: 0x0100, V: n09GenBigVal(t)})
			if held {
				c.Ops = append(c.Ops, n09Op{K: "unhold"})
			}
			holds = append(holds, hold{db, key, b})
			continue
		}
		r := rapid.IntRange(0, 99).Draw(t, "r")
		switch {
		case r < 45:
			op := n09GenLock(t, keys)
			holds = append(holds, hold{op.Db, op.Key, op.Id})
			c.Ops = append(c.Ops, op)
		case r < 70:
			op := n09Op{K: "unlock", Rc: rapid.SampledFrom([]int{0, 0, 1}).Draw(t, "urc")}
			if len(holds) > 0 && rapid.IntRange(0, 9).Draw(t, "known") > 0 {
				k := rapid.IntRange(0, len(holds)-1).Draw(t, "which")
				op.Db, op.Key, op.Id = holds[k].db, holds[k].key, holds[k].id
				if op.Rc == 0 {
					holds = append(holds[:k:k], holds[k+1:]...)
				}
			} else {
				op.Db, op.Key, op.Id = rapid.IntRange(0, 1).Draw(t, "udb"), rapid.IntRange(0, keys-1).Draw(t, "ukey"), rapid.IntRange(0, 2).Draw(t, "uid")
			}
			if rapid.IntRange(0, 99).Draw(t, "uval") < 10 {
				op.V = n09GenVal(t)
			}
			c.Ops = append(c.Ops, op)
		case r < 74:
			c.Ops = append(c.Ops, n09Op{K: "rotate"})
		case r < 75 && restarts:
			// the leader comes back on its directory with an empty ring; every follower is stopped with it
			c.Ops = append(c.Ops, n09Op{K: "restart"})
			for f := range joined {
				joined[f] = false
			}
		case r < 85:
			f := rapid.IntRange(0, c.Followers-1).Draw(t, "f")
			if joined[f] {
				c.Ops = append(c.Ops, n09Op{K: "stop", F: f})
				joined[f] = false
			} else {
				c.Ops = append(c.Ops, n09Op{K: "join", F: f, Wipe: rapid.IntRange(0, 3).Draw(t, "wipe") == 0})
				joined[f] = true
			}
		case r < 89:
			f := rapid.IntRange(0, c.Followers-1).Draw(t, "f")
			if stalled[f] {
				c.Ops = append(c.Ops, n09Op{K: "unstall", F: f})
			} else {
				c.Ops = append(c.Ops, n09Op{K: "stall", F: f})
			}
			stalled[f] = !stalled[f]
		case r < 92:
			c.Ops = append(c.Ops, n09Op{K: "drop", F: rapid.IntRange(0, c.Followers-1).Draw(t, "f")})
		default:
			c.Ops = append(c.Ops, n09Op{K: "sync"})
		}
	}
	for f := 0; f < c.Followers; f++ {
		n := rapid.IntRange(0, 4).Draw(t, "ncuts")
		var cuts []int64
		at := int64(0)
		for i := 0; i < n; i++ {
			var gap int
			switch rapid.IntRange(0, 3).Draw(t, "gapclass") {
			case 0:
				gap = rapid.IntRange(1, 63).Draw(t, "gap")
			case 1:
				gap = rapid.IntRange(64, 400).Draw(t, "gap")
			case 2:
				gap = rapid.IntRange(400, 3000).Draw(t, "gap")
			default:
				gap = rapid.IntRange(3000, 20000).Draw(t, "gap")
			}
			at += int64(gap)
			cuts = append(cuts, at)
		}
		c.Cuts = append(c.Cuts, cuts)
	}
	return c
}

func n09ClusterClasses(info n09Info) []string {
	var cls []string
	add := func(b bool, s string) {
		if b {
			cls = append(cls, s)
		}
	}
	add(info.cutsFiles > 0, "cut during file transfer")
	add(info.cutsLive > 0, "cut during live streaming")
	add(info.cutsHandshake > 0, "cut during handshake")
	add(info.ringOverflow, "leader ring overflowed")
	add(info.ringDup > 0, "leader ring doubled")
	add(info.notFound > 0, "follower position left the ring (ERR_NOT_FOUND -> full resync)")
	add(info.fullSyncs > 1, ">1 full transfer")
	add(info.resumes > 0, "resume by id")
	add(info.rotations > 0, "log rotation")
	add(info.leaderRestarts > 0, "leader restarted")
	add(info.bigValues > 0, "value larger than the sender's batch buffer (or at its boundary)")
	add(info.holds > 0, "burst sent while the leader's socket write was held")
	add(info.followerBursts > 0, "burst of 300..600 records while the follower's log append was held")
	add(info.burstCuts > 0, "connection cut right behind a burst, before the follower's log append went on")
	add(info.burstCutsExact > 0, "... the burst was a whole number of file buffers")
	add(info.smallFileBuf, "aof_file_buffer_size of 1, 2 or 16 records")
	add(info.shortLived > 0 && info.pauses > 0, "value-carrying holds expired before a log file was read (join / follower restart)")
	add(info.staleJoins > 0, "rejoin with stale directory")
	add(info.wipeJoins > 0, "rejoin with emptied directory")
	add(info.syncs > 1, "intermediate quiescence checks")
	add(info.abandoned > 0, "teardown abandoned an instance")
	add(info.skipAhead > 0, "resume accepted after an empty full transfer")
	add(info.maxHolds > 0, "state compared with >=1 persisted hold")
	return cls
}

func n09ClusterNontrivial(info n09Info) bool {
	return (info.cutsFiles > 0 && info.cutsLive > 0) || (info.ringOverflow && (info.notFound > 0 || info.resumes > 0 || info.fullSyncs > 0)) ||
		(info.leaderRestarts > 0 && info.fullSyncs+info.resumes > 0)
}

func n09Inconclusive(why string) {
	fmt.Printf("VERIF-INCONCLUSIVE %s\n", why)
	vFlush()
	os.Exit(3)
}

// ---------------------------------------------------------------------------------------------
// verdicts: a failure counts only if it shows again

type n09Anomaly struct {
	Test     string                  `json:"test"`
	Key      string                  `json:"key"`
	Message  string                  `json:"message"`
	Case     interface{}             `json:"case"`
	Leader   map[string]*n09KeyState `json:"leader_snapshot,omitempty"`
	Follower map[string]*n09KeyState `json:"follower_snapshot,omitempty"`
	Reruns   int                     `json:"reruns_without_failure"`
}

var n09AnomalySeq int32

// vWriteAnomaly files an unreproduced failure: never a verdict.
func n09WriteAnomaly(prop string, a *n09Anomaly) {
	n := atomic.AddInt32(&n09AnomalySeq, 1)
	file := ""
	if dir := os.Getenv("VERIF_FAILDIR"); dir != "" {
		file = filepath.Join(dir, fmt.Sprintf("%s.anomaly-%d-%d.json", prop, os.Getpid(), n))
		if b, err := json.MarshalIndent(a, "", " "); err == nil {
			_ = os.WriteFile(file, b, 0644)
		}
	}
	fmt.Printf("VERIF-ANOMALY key=%s file=%s (failed once, passed %d re-executions; not judged)\n", a.Key, file, a.Reruns)
}

const n09Reruns = 4

// confirmed failures by case fingerprint: the property is a function of its input within one process,
// which is what rapid's shrinking and its final re-run rely on
var n09Confirmed = struct {
	sync.Mutex
	m map[uint64]*n09Out
}{m: map[uint64]*n09Out{}}

// n09Judge executes the case; a failing execution is repeated on fresh clusters up to n09Reruns times and
// counts as a failure only if it fails again with the same key. Runs outside of any recover.
func n09Judge(c *n09Case, st *vStat) (out n09Out, judged bool) {
	fp := c.fingerprint()
	n09Confirmed.Lock()
	if prev := n09Confirmed.m[fp]; prev != nil {
		n09Confirmed.Unlock()
		return *prev, true
	}
	n09Confirmed.Unlock()
	out = n09RunCluster(c)
	for i := 0; i < 2 && out.inconclusive != ""; i++ {
		st.Class("inconclusive execution repeated", 1)
		first := out.inconclusive
		out = n09RunCluster(c)
		if out.inconclusive != "" {
			out.inconclusive = first
		}
	}
	if out.inconclusive != "" || out.discarded != "" || out.err == nil {
		return out, true
	}
	if (out.key == n09KeySkipAhead || out.key == n09KeyDupFlush || out.key == n09KeyWedged || out.key == n09KeyLeftOver) && vIsKnown(out.key) {
		return out, true // suppressed by signature further down, nothing to confirm
	}
	for i := 1; i <= n09Reruns; i++ {
		again := n09RunCluster(c)
		if again.err != nil && again.key == out.key {
			again.err = fmt.Errorf("%v\n(failed in 2 of %d executions of this case with key %s)", again.err, i+1, again.key)
			n09Confirmed.Lock()
			n09Confirmed.m[fp] = &again
			n09Confirmed.Unlock()
			return again, true
		}
	}
	n09WriteAnomaly("C09", &n09Anomaly{"TestC09_Cluster", out.key, out.err.Error(), c, out.leaderSnap, out.followerSnap, n09Reruns})
	st.Class("unreproduced anomaly (not judged)", 1)
	return out, false
}

func TestC09_Cluster(t *testing.T) {
	st := vstat("TestC09_Cluster")
	rapid.Check(t, func(t *rapid.T) {
		c := n09GenCluster(t)
		out, judged := n09Judge(c, st)
		if out.inconclusive != "" {
			n09Inconclusive(out.inconclusive)
		}
		if !judged {
			out.err = nil
		}
		if out.discarded != "" {
			st.Class("case discarded: "+out.discarded, 1)
			return
		}
		for i := 0; i < out.info.excludedCreateByUpdate; i++ {
			st.Exclude("update flag dropped from a request whose LockId is not a holder (known finding " + n09KeyCompaction + ")")
		}
		for i := 0; i < out.info.knownCompactedLog; i++ {
			st.KnownHit(n09KeyCompactedLog)
		}
		for i := 0; i < out.info.knownLeftOver; i++ {
			st.KnownHit(n09KeyLeftOver)
		}
		for i := 0; i < out.info.knownDupFlush; i++ {
			st.KnownHit(n09KeyDupFlush)
		}
		if out.info.excludedEmptyRingJoin > 0 {
			st.Exclude("workload paused until the handshake of a follower joining an empty leader finished (known finding " + n09KeyFirstTwice + ")")
		}
		if out.info.excludedRotationOverlap > 0 {
			st.Exclude("rotation waited for file transfers to finish and held back new handshakes (known finding " + n09KeyTransferVsCompaction + ")")
		}
		if out.info.excludedEmptyRotation > 0 {
			st.Exclude("rotation of an empty append file skipped (known finding " + n09KeyWedged + ")")
		}
		if out.info.deferredCuts > 0 {
			st.Exclude("cut deferred past the first record of a full transfer (known finding " + n09KeySkipAhead + ")")
		}
		st.Case(n09ClusterNontrivial(out.info), c.fingerprint(), n09ClusterClasses(out.info), func() interface{} { return c })
		if out.err != nil {
			if (out.key == n09KeySkipAhead || out.key == n09KeyDupFlush || out.key == n09KeyWedged || out.key == n09KeyLeftOver) && vIsKnown(out.key) {
				// residual of a listed finding that cannot be excluded by construction (the leader itself aborted
				// the transfer); identified by its exact signature in the proxy log
				st.KnownHit(out.key)
				return
			}
			vFail(t, "TestC09_Cluster", out.key, c, "%v", out.err)
		}
	})
}
