package server

// C11 "Ack-required locks succeed only after log + quorum acknowledgement" - layer 1: single node.
//
// One in-process leader without wall-clock sweep goroutines (hook H1); the harness owns the clock.
// Requests go through MemWaiterServerProtocol objects with a result callback. The append-file writer
// is asynchronous (AofChannel goroutines), so the engine alternates between
//   - harness activity (send a request / advance the clock), and
//   - waiting for quiescence (every persistence queue drained, every ack-pending request answered),
// unless the case has taken the "hold": the harness then owns Aof.aofGlock, every channel goroutine
// parks in front of the append file, and ack-required holds stay pending while further requests and
// clock ticks are applied (deterministically - nothing asynchronous can run). "release" optionally
// breaks the append file (closes the *os.File => AofFile.Flush fails => lockAcked(false)), lets the
// writers go, waits for quiescence and repairs the file.
//
// Oracle = reply-driven ledger (who holds / waits / is ack-pending) + in-package snapshot (aSnapshot)
// + the bytes of the leader's append files read at reply time. No forward model of value operations
// is needed: "the value change is undone" is checked against the value observed before the request.

import (
	"bytes"
	"encoding/json"
	"fmt"
	"os"
	"path/filepath"
	"runtime/debug"
	"sort"
	"strings"
	"sync"
	"sync/atomic"
	"time"

	"github.com/snower/slock/protocol"
)

const k11Epoch = int64(1700000000)

const (
	k11KeyReentrant = "C11:reentrant-ack-lock-answered-before-log-write"
	k11KeyLateReply = "C11:second-reply-after-ack-wait-timeout"
	k11SufNoWake    = "no-wakeup-after-waiter-leaves" // C04's finding; listed for C11 as C11:no-wakeup-after-waiter-leaves
	k11KeyTwice     = "C11:write-error-inside-push-fails-ack-twice"
	k11KeyRollback  = "C11:value-rollback-by-inverse-operation-inexact"
	k11KeyMajority  = "C11:majority-mode-counts-follower-acks-without-the-leaders-own-write"
	k11KeyNeverAof  = "C11:never-persist-flag-leaves-hold-awaiting-ack-for-ever"
)

type k11Op struct {
	K     string `json:"k"`              // lock unlock tick hold release | cluster: stall unstall demote
	F     int    `json:"f,omitempty"`    // cluster: follower index
	Mode  string `json:"mode,omitempty"` // unstall: pass | negate | drop
	C     int    `json:"c,omitempty"`
	Key   int    `json:"key,omitempty"`
	Id    int    `json:"id,omitempty"`
	T     int    `json:"t,omitempty"`
	Ack   bool   `json:"ack,omitempty"`
	E     int    `json:"e,omitempty"`
	EF    int    `json:"ef,omitempty"`
	Cnt   int    `json:"cnt,omitempty"`
	Rc    int    `json:"rc,omitempty"`
	UF    int    `json:"uf,omitempty"` // unlock flag: 0x01 unlock-first-when-LockId-holds-nothing, 0x02 cancel-wait
	V     *aVal  `json:"v,omitempty"`
	N     int    `json:"n,omitempty"`     // tick seconds
	Fault string `json:"fault,omitempty"` // release: "" | file | data
}

func (o k11Op) String() string {
	switch o.K {
	case "lock":
		s := fmt.Sprintf("lock c%d k%d id%d T=%d E=%d/%#x count=%d rcount=%d", o.C, o.Key, o.Id, o.T, o.E, o.EF, o.Cnt, o.Rc)
		if o.Ack {
			s += " REQUIRE-ACK"
		}
		if o.V != nil {
			s += " val=" + o.V.String()
		}
		return s
	case "unlock":
		return fmt.Sprintf("unlock c%d k%d id%d rcount=%d flag=%#x", o.C, o.Key, o.Id, o.Rc, o.UF)
	case "tick":
		return fmt.Sprintf("tick %d", o.N)
	case "release":
		return "release fault=" + o.Fault
	case "stall":
		return fmt.Sprintf("stall f%d", o.F)
	case "unstall":
		return fmt.Sprintf("unstall f%d mode=%s", o.F, o.Mode)
	}
	return o.K
}

type k11Case struct {
	Kind     string  `json:"kind"` // single | cluster
	Conc     int     `json:"conc"`
	FastKeys int     `json:"fastkeys"`
	AofBuf   int     `json:"aofbuf"`
	Clients  int     `json:"clients"`
	Ops      []k11Op `json:"ops"`
	// cluster only (c11_cluster_test.go)
	NoGuard   bool `json:"noguard,omitempty"` // replay only: do not replace APPEND/SHIFT that meet an array value
	Followers int  `json:"followers,omitempty"`
	AckMode   int  `json:"ackmode,omitempty"` // 1 majority, 2 all
}

func k11IdIdx(id [16]byte) int { return (int(id[0]) | int(id[1])<<8 | int(id[2])<<16) - 1 }

func (c *k11Case) fingerprint() uint64 {
	var sb strings.Builder
	for _, o := range c.Ops {
		sb.WriteString(o.String())
		sb.WriteByte(';')
	}
	return vHash(c.Kind, c.Conc, c.FastKeys, c.AofBuf, c.Clients, c.Followers, c.AckMode, sb.String())
}

type k11Reply struct {
	Result  uint8
	LCount  uint16
	LRCount uint8
	Data    []byte
	Time    int64
}

const (
	k11New = iota
	k11Queued
	k11Pending
	k11Holding
	k11Ended
)

type k11Req struct {
	Idx      int
	Op       k11Op
	Time     int64
	LockId   [16]byte
	Key      [16]byte
	Replies  []k11Reply
	Terminal int
	State    int
	// value bookkeeping
	pre       *aValue
	preKnown  bool
	applySeq  int
	undoSeq   int
	undoCheck bool
	failed    bool
	expectAW  bool
	// answered TIMEOUT while the ledger had it queued: it may have left the queue and become ack-pending
	// inside the same clock sweep (the harness cannot observe in between)
	maybePending bool
	doomed       bool // cluster: an acknowledgement it needs was lost with a cut connection; only its timeout can answer it
	exactUndo    bool // the roll-back of its value operation is exact in the state it was sent in (see k11RollbackExact)
}

type k11Hold struct {
	id      [16]byte
	depth   int
	pending bool
	req     *k11Req
	count   int
}

type k11Key struct {
	idx       int
	key       [16]byte
	holders   []*k11Hold
	waiters   []*k11Req
	valSeq    int
	staleWake bool
	checkWake string // non-empty: a pending hold was removed (why); waiters must have been served
	// per harness step
	baseVal      *aValue
	baseKnown    bool
	stepApps     int
	stepLeaves   int // requests that left the wait queue in this step
	stepRemovals int // holds removed in this step (each may have woken queued requests unobserved)
}

func (k *k11Key) holder(id [16]byte) *k11Hold {
	for _, h := range k.holders {
		if h.id == id {
			return h
		}
	}
	return nil
}

func (k *k11Key) removeHolder(h *k11Hold) {
	k.stepRemovals++
	for i, x := range k.holders {
		if x == h {
			k.holders = append(k.holders[:i:i], k.holders[i+1:]...)
			return
		}
	}
}

func (k *k11Key) removeWaiter(r *k11Req) {
	for i, x := range k.waiters {
		if x == r {
			k.waiters = append(k.waiters[:i:i], k.waiters[i+1:]...)
			return
		}
	}
}

type k11Info struct {
	unlockFirst, unlockFirstPending, cancelledWaiters int
	parkPhases, parkedWithBuffered, parkHookBlocks    int
	ackReqs, ackSucceeded, ackFresh, ackFromQueue     int
	ackFailedWrite, ackFailedData, ackTimedOut        int
	ackWaitingLock, ackWaitingUnlock                  int
	failedWithValue, failedWithValueAndWaiter         int
	valueRestoreChecked, valueRestoreSnapChecked      int
	waitersServedAfterFailure, wakeChecks             int
	staleWakeSkips, ambiguousValue                    int
	succPreValueChecked, unlockAfterAck, reentrant    int
	failResults                                       map[string]bool
	valueKindsFailed                                  map[string]bool
	holdPhases, pendingMax, queuedBehindPending       int
	dataFaultSucceeded, dataFaultFailed               int
	knownReentrant, knownLateReply                    int
	skippedDupQueued, excludedRollback                int
	excludedBytesOnArray, keyFreedWithFailure         int
	// cluster
	ackFramesForwarded, ackFramesNegated, ackFramesDropped, ackFramesDelayed int
	decidedByFollower, demotions, demotedPending, failedByFollower           int
	followersChecked                                                         int
}

type k11Viol struct {
	Key string
	Msg string
	Sig string
}

func k11ValKind(v *aValue) string {
	switch {
	case v == nil:
		return "none"
	case v.Arr:
		return "array"
	case len(v.Payload) == 0:
		return "empty"
	case len(v.Payload) == 8:
		return "8bytes"
	}
	return "bytes"
}

func (e *k11Env) sig(format string, a ...interface{}) {
	if n := len(e.viols); n > 0 && e.viols[n-1].Sig == "" {
		e.viols[n-1].Sig = fmt.Sprintf(format, a...)
	}
}

type k11Env struct {
	c    *k11Case
	inst *vInst
	db   *LockDB
	now  int64
	toQ  [][]*LockQueue
	exQ  [][]*LockQueue

	mu      sync.Mutex
	clients []*MemWaiterServerProtocol
	reqs    []*k11Req
	keys    map[int]*k11Key
	hist    []string
	viols   []k11Viol
	info    k11Info
	succ    map[string]int // (key,lockid) -> SUCCED replies to ack-required requests so far

	held         bool
	parked       bool   // the leader's idle flush is suppressed (see park)
	majorityTwo  bool   // cluster in majority mode with >= 2 followers (finding k11KeyMajority applies)
	faultActive  string // between release(fault) and repair
	closedFile   *os.File
	closedData   *os.File
	inconcl      string
	neverAofKeys map[int]bool // keys that have seen a request with the never-persist flag (inherited by later holders)
	known        func(string) bool
	knownSuffix  func(string) bool
	noTypeGuard  bool // replay of the malformed-array crash

	// cluster hooks (nil on a single node)
	ackGate     func(r *k11Req) string // extra ordering check at SUCCED time
	anyNegative func(r *k11Req) bool   // a negative ack frame for r has been handed to the leader
	stuck       func() bool            // true: no acknowledgement can complete without the harness acting
	epoch       int64
}

func (e *k11Env) logf(format string, a ...interface{}) {
	e.hist = append(e.hist, fmt.Sprintf("[t+%d] ", e.now-e.epoch)+fmt.Sprintf(format, a...))
}

func (e *k11Env) viol(key string, format string, a ...interface{}) {
	msg := fmt.Sprintf(format, a...)
	e.hist = append(e.hist, "  !! "+key+" "+msg)
	if len(e.viols) < 8 {
		e.viols = append(e.viols, k11Viol{key, msg, ""})
	}
}

func (e *k11Env) history() string {
	h := e.hist
	if len(h) > 300 {
		h = h[len(h)-300:]
	}
	return strings.Join(h, "\n")
}

func (e *k11Env) key(i int) *k11Key {
	k := e.keys[i]
	if k == nil {
		k = &k11Key{idx: i, key: aKey(i)}
		e.keys[i] = k
	}
	return k
}

func k11NewEnv(c *k11Case, opts vInstOpts, inst *vInst) (*k11Env, error) {
	vSetYieldExtra(k11ParkHook.yield)
	if inst == nil {
		var err error
		inst, err = vNewInst(opts)
		if err != nil {
			return nil, err
		}
	}
	e := &k11Env{c: c, inst: inst, now: k11Epoch, epoch: k11Epoch, keys: map[int]*k11Key{}, succ: map[string]int{}}
	e.info.failResults, e.info.valueKindsFailed = map[string]bool{}, map[string]bool{}
	e.neverAofKeys = map[int]bool{}
	e.known = vIsKnown
	e.knownSuffix = vIsKnownSuffix
	e.noTypeGuard = c.NoGuard
	d := inst.slock.GetOrNewDB(0)
	d.currentTime, d.checkTimeoutTime, d.checkExpriedTime = e.now, e.now, e.now
	e.db = d
	e.toQ = make([][]*LockQueue, d.managerMaxGlocks)
	e.exQ = make([][]*LockQueue, d.managerMaxGlocks)
	for i := range e.toQ {
		e.toQ[i] = make([]*LockQueue, 5)
		e.exQ[i] = make([]*LockQueue, 5)
		for j := 0; j < 5; j++ {
			e.toQ[i][j] = NewLockQueue(4, 16, 64)
			e.exQ[i][j] = NewLockQueue(4, 16, 64)
		}
	}
	n := c.Clients
	if n < 1 {
		n = 1
	}
	for i := 0; i < n; i++ {
		p := NewMemWaiterServerProtocol(inst.slock)
		idx := i
		_ = p.SetResultCallback(func(_ *MemWaiterServerProtocol, cmd *protocol.LockCommand, result uint8, lcount uint16, lrcount uint8, data []byte) error {
			e.onReply(idx, cmd, result, lcount, lrcount, data)
			return nil
		})
		e.clients = append(e.clients, p)
	}
	return e, nil
}

func (e *k11Env) closeClients() {
	for _, p := range e.clients {
		_ = p.Close()
	}
}

// ---------------------------------------------------------------------------------------------
// append files

// k11DiskLocks counts the LOCK records of (key, lockId) in the node's append files.
func k11DiskLocks(dir string, key, lockId [16]byte) int {
	ents, err := os.ReadDir(dir)
	if err != nil {
		return 0
	}
	n := 0
	for _, ent := range ents {
		name := ent.Name()
		if strings.HasSuffix(name, ".dat") || !(strings.HasPrefix(name, "append.aof.") || name == "rewrite.aof") {
			continue
		}
		b, err := os.ReadFile(filepath.Join(dir, name))
		if err != nil || len(b) < 12 {
			continue
		}
		off := 12 + int(uint16(b[10])|uint16(b[11])<<8)
		for ; off+64 <= len(b); off += 64 {
			rec := b[off : off+64]
			if rec[2] == protocol.COMMAND_LOCK && bytes.Equal(rec[21:37], lockId[:]) && bytes.Equal(rec[37:53], key[:]) {
				n++
			}
		}
	}
	return n
}

// ---------------------------------------------------------------------------------------------
// replies

func (e *k11Env) onReply(client int, cmd *protocol.LockCommand, result uint8, lcount uint16, lrcount uint8, data []byte) {
	e.mu.Lock()
	defer e.mu.Unlock()
	idx := aReqIdx(cmd.RequestId)
	var d []byte
	if data != nil {
		d = append([]byte{}, data...)
	}
	if idx < 0 || idx >= len(e.reqs) {
		e.logf("  <- c%d UNKNOWN RequestId %x %s", client, cmd.RequestId, aResultName(result))
		e.viol("C11:reply-for-unknown-request", "reply %s carries a RequestId the harness never sent: %x", aResultName(result), cmd.RequestId)
		return
	}
	r := e.reqs[idx]
	rp := k11Reply{result, lcount, lrcount, d, e.now}
	e.logf("  <- c%d req#%d %s lcount=%d lrcount=%d data=%x", client, idx, aResultName(result), lcount, lrcount, d)
	r.Replies = append(r.Replies, rp)
	k := e.key(r.Op.Key)
	if result == protocol.RESULT_EXPRIED {
		h := k.holder(cmd.LockId)
		if h == nil {
			e.viol("C11:ledger", "EXPRIED notice for request #%d whose LockId holds nothing on key %d", idx, r.Op.Key)
			return
		}
		if h.pending {
			e.viol("C11:pending-hold-expired", "hold of request #%d expired while it was still awaiting acknowledgement", h.req.Idx)
		}
		k.removeHolder(h)
		h.req.State = k11Ended
		return
	}
	if r.Terminal >= 0 {
		first := r.Replies[r.Terminal].Result
		late := first == protocol.RESULT_TIMEOUT && r.Op.K == "lock" && r.Op.Ack && result == protocol.RESULT_LOCKED_ERROR && (r.failed || r.maybePending)
		if late && e.known(k11KeyLateReply) {
			e.info.knownLateReply++
			return
		}
		key := "C11:second-terminal-reply"
		if late {
			key = k11KeyLateReply
		} else if first == protocol.RESULT_SUCCED && r.Op.Ack {
			key = "C11:second-reply-after-succed"
		}
		e.viol(key, "request #%d (%v) got a second terminal reply %s; the first was %s", idx, r.Op, aResultName(result), aResultName(first))
		return
	}
	r.Terminal = len(r.Replies) - 1
	if r.Op.K == "lock" {
		e.onLockReply(k, r, &rp)
	} else {
		e.onUnlockReply(k, r, &rp, cmd.LockId)
	}
}

func (e *k11Env) diskCheck(r *k11Req, what string) {
	id := fmt.Sprintf("%d/%x", r.Op.Key, r.LockId)
	e.succ[id]++
	if got := k11DiskLocks(e.inst.dir, r.Key, r.LockId); got < e.succ[id] {
		key := "C11:succed-before-log-write"
		if what == "re-entrant" {
			key = k11KeyReentrant
		} else if r.Op.EF&0x0200 != 0 || e.neverAofKeys[r.Op.Key] {
			key = k11KeyNeverAof
		} else if e.majorityTwo {
			key = k11KeyMajority
		}
		e.viol(key, "%s request #%d (%v) was answered SUCCED but the leader's append files hold %d LOCK record(s) of that key/LockId; %d acknowledged grant(s) need one each", what, r.Idx, r.Op, got, e.succ[id])
	}
	if e.ackGate != nil {
		if why := e.ackGate(r); why != "" {
			e.viol("C11:succed-before-quorum", "%s request #%d (%v) was answered SUCCED %s", what, r.Idx, r.Op, why)
		}
	}
}

// failure of an ack-pending hold: requester got an error / TIMEOUT
func (e *k11Env) onPendingFailed(k *k11Key, h *k11Hold, r *k11Req, rp *k11Reply, why string) {
	// an ack-required request with a value operation that is queued on this key may have left the queue
	// unobserved after an earlier hold removal of this step and applied its operation on top of r's
	silent := false
	if k.stepRemovals > 0 {
		for _, w := range k.waiters {
			if w.Op.Ack && w.Op.V != nil {
				silent = true
			}
		}
	}
	k.removeHolder(h)
	r.State = k11Ended
	r.failed = true
	e.info.failResults[why+":"+aResultName(rp.Result)] = true
	k.checkWake = fmt.Sprintf("request #%d %s (%s)", r.Idx, why, aResultName(rp.Result))
	if len(k.waiters) > 0 {
		e.info.queuedBehindPending++
	}
	if r.Op.V == nil {
		return
	}
	e.info.failedWithValue++
	e.info.valueKindsFailed[r.Op.V.Op] = true
	if len(k.waiters) > 0 {
		e.info.failedWithValueAndWaiter++
	}
	unamb := r.preKnown && k.valSeq == r.applySeq && !silent
	k.valSeq++
	r.undoSeq = k.valSeq
	if !unamb {
		e.info.ambiguousValue++
		k.baseKnown = false
		return
	}
	k.baseVal, k.baseKnown = r.pre, true
	got, err := aDecodeFrame(rp.Data)
	e.info.valueRestoreChecked++
	if err != nil {
		e.viol("C11:value-not-restored", "%s reply to failed ack request #%d carries a malformed value frame: %v", aResultName(rp.Result), r.Idx, err)
	} else if got == nil && len(k.holders) == 0 && len(k.waiters) == 0 {
		// nothing holds or awaits the key any more: the key and its value may already have been released (the
		// reply value is read after the key mutex was dropped; the writer goroutine can free the key in between)
		e.info.keyFreedWithFailure++
	} else if !aValueEqual(got, r.pre) {
		if os.Getenv("VERIF_K11_TRACE") != "" {
			cmd := &protocol.LockCommand{}
			cmd.LockKey = r.Key
			m := e.db.GetLockManager(cmd)
			if m == nil {
				e.logf("  (debug) key manager is gone at reply time")
			} else {
				e.logf("  (debug) key manager refCount=%d locked=%d waited=%v currentData=%v", m.refCount, m.locked, m.waited, m.currentData)
			}
		}
		e.viol(k11UndoKey(r), "request #%d (%v) %s: its %s reply carries value %s, the value before the request was %s", r.Idx, r.Op, why, aResultName(rp.Result), got.String(), r.pre.String())
		e.sig("reply op=%s before=%s after=%s", r.Op.V.Op, k11ValKind(r.pre), k11ValKind(got))
	}
	r.undoCheck = true
}

func (e *k11Env) onLockReply(k *k11Key, r *k11Req, rp *k11Reply) {
	h := k.holder(r.LockId)
	switch rp.Result {
	case protocol.RESULT_SUCCED:
		switch r.State {
		case k11Pending:
			if h == nil || h.req != r {
				e.viol("C11:ledger", "SUCCED for pending request #%d but the ledger has no such hold", r.Idx)
				return
			}
			if e.faultActive == "file" {
				e.viol("C11:succed-although-write-failed", "request #%d (%v) was answered SUCCED although the append file had been closed before its record could be written", r.Idx, r.Op)
			}
			if e.faultActive == "data" {
				e.info.dataFaultSucceeded++
			}
			e.diskCheck(r, "ack-required")
			h.pending = false
			r.State = k11Holding
			e.info.ackSucceeded++
			if r.Op.V != nil && r.preKnown && k.valSeq == r.applySeq {
				got, err := aDecodeFrame(rp.Data)
				e.info.succPreValueChecked++
				if err != nil || !aValueEqual(got, r.pre) {
					e.viol("C11:succed-reply-value", "SUCCED reply to ack request #%d (%v) carries value %s (err %v), the value before the request was %s", r.Idx, r.Op, got.String(), err, r.pre.String())
				}
			}
		case k11Queued:
			k.removeWaiter(r)
			k.stepLeaves++
			if h != nil {
				e.viol("C11:ledger", "queued request #%d granted although its LockId already holds the key", r.Idx)
				return
			}
			k.holders = append(k.holders, &k11Hold{id: r.LockId, depth: 1, req: r, count: r.Op.Cnt})
			r.State = k11Holding
			if r.Op.Ack {
				e.diskCheck(r, "queued ack-required")
				e.info.ackSucceeded++
				e.info.ackFromQueue++
			}
			if r.Op.V != nil {
				k.valSeq++
				k.stepApps++
				k.baseKnown = false
			}
			if k.checkWake != "" {
				e.info.waitersServedAfterFailure++
			}
		case k11New:
			if h != nil {
				if h.pending {
					e.viol("C11:no-ack-waiting", "lock request #%d for a LockId that is awaiting acknowledgement was answered SUCCED", r.Idx)
				}
				h.depth++
				r.State = k11Ended
				e.info.reentrant++
				if r.Op.Ack {
					e.diskCheck(r, "re-entrant")
				}
			} else {
				k.holders = append(k.holders, &k11Hold{id: r.LockId, depth: 1, req: r, count: r.Op.Cnt})
				r.State = k11Holding
				if r.Op.Ack {
					// answered before the harness could observe the pending state (asynchronous writer was faster)
					if e.faultActive == "file" {
						e.viol("C11:succed-although-write-failed", "request #%d (%v) was answered SUCCED although the append file is closed", r.Idx, r.Op)
					}
					e.diskCheck(r, "ack-required")
					e.info.ackSucceeded++
					e.info.ackFresh++
				}
			}
			if r.Op.V != nil {
				k.valSeq++
				k.stepApps++
				k.baseKnown = false
			}
		default:
			e.viol("C11:ledger", "SUCCED for request #%d in state %d", r.Idx, r.State)
		}
	case protocol.RESULT_TIMEOUT:
		switch r.State {
		case k11Pending:
			e.info.ackTimedOut++
			if r.doomed {
				e.info.failedByFollower++
			}
			if e.now-r.Time < int64(r.Op.T) {
				e.viol("C11:early-ack-timeout", "ack wait of request #%d (T=%d, sent at t+%d) timed out at t+%d", r.Idx, r.Op.T, r.Time-e.epoch, e.now-e.epoch)
			}
			e.onPendingFailed(k, h, r, rp, "ack wait timed out")
		case k11Queued:
			k.removeWaiter(r)
			k.stepLeaves++
			r.State = k11Ended
			k.staleWake = true
			if r.Op.Ack {
				r.maybePending = true
				if r.Op.V != nil {
					k.valSeq++ // possibly applied and rolled back unobserved
					k.baseKnown = false
				}
			}
		default:
			r.State = k11Ended
		}
	case protocol.RESULT_ERROR, protocol.RESULT_LOCKED_ERROR, protocol.RESULT_STATE_ERROR:
		switch r.State {
		case k11Pending:
			why := "failed"
			switch e.faultActive {
			case "file":
				why = "log write failed"
				e.info.ackFailedWrite++
			case "data":
				why = "value write failed"
				e.info.ackFailedData++
				e.info.dataFaultFailed++
			case "negative-ack":
				why = "follower acknowledged negatively"
				e.info.failedByFollower++
			case "demotion":
				why = "leader demoted"
			default:
				if e.inst.slock.state != STATE_LEADER {
					why = "leader demoted"
				} else if e.anyNegative != nil && e.anyNegative(r) {
					why = "follower acknowledged negatively"
					e.info.failedByFollower++
				} else {
					e.viol("C11:failed-without-cause", "ack-required request #%d (%v) was answered %s although no write failed, no acknowledgement was negative or lost, the wait did not time out and the node is still leader", r.Idx, r.Op, aResultName(rp.Result))
				}
			}
			e.onPendingFailed(k, h, r, rp, why)
		case k11Queued:
			// an ack-required waiter that was woken and failed before the harness saw it pending
			if r.Op.Ack && rp.Result != protocol.RESULT_STATE_ERROR {
				k.removeWaiter(r)
				k.stepLeaves++
				r.State = k11Ended
				r.failed = true
				e.info.failResults["woken-unobserved:"+aResultName(rp.Result)] = true
				k.checkWake = fmt.Sprintf("request #%d failed right after leaving the queue", r.Idx)
				if r.Op.V != nil {
					k.valSeq++
					k.baseKnown = false
				}
			} else {
				e.viol("C11:ledger", "queued request #%d answered %s", r.Idx, aResultName(rp.Result))
				k.removeWaiter(r)
				r.State = k11Ended
			}
		default:
			if r.Op.Ack && h == nil && rp.Result == protocol.RESULT_ERROR {
				// fresh ack request failed before the harness observed it pending
				r.failed = true
				e.info.failResults["fresh-unobserved:"+aResultName(rp.Result)] = true
				k.checkWake = fmt.Sprintf("request #%d failed", r.Idx)
				if e.faultActive == "file" {
					e.info.ackFailedWrite++
				}
				if r.Op.V != nil {
					k.valSeq++
					k.baseKnown = false
				}
			} else if h != nil && h.pending && rp.Result != protocol.RESULT_STATE_ERROR {
				e.viol("C11:no-ack-waiting", "lock request #%d for a LockId that is awaiting acknowledgement was answered %s instead of LOCK_ACK_WAITING", r.Idx, aResultName(rp.Result))
			}
			r.State = k11Ended
		}
	case protocol.RESULT_UNLOCK_ERROR:
		if r.State == k11Queued {
			// cancelled by a cancel-wait unlock; no wake-up pass follows (same situation as a waiter's timeout)
			k.removeWaiter(r)
			k.stepLeaves++
			k.staleWake = true
			e.info.cancelledWaiters++
		} else {
			e.viol("C11:ledger", "lock request #%d answered UNLOCK_ERROR in state %d", r.Idx, r.State)
		}
		r.State = k11Ended
	case protocol.RESULT_LOCK_ACK_WAITING:
		if h == nil || !h.pending {
			e.viol("C11:ack-waiting-without-pending", "lock request #%d (%v) was answered LOCK_ACK_WAITING but no hold of that LockId is awaiting acknowledgement", r.Idx, r.Op)
		} else {
			e.info.ackWaitingLock++
		}
		if r.State == k11Queued {
			k.removeWaiter(r)
		}
		r.State = k11Ended
	default:
		e.viol("C11:ledger", "lock request #%d answered %s", r.Idx, aResultName(rp.Result))
		r.State = k11Ended
	}
}

func (e *k11Env) onUnlockReply(k *k11Key, r *k11Req, rp *k11Reply, replyId [16]byte) {
	h := k.holder(r.LockId)
	first := false
	if h == nil && r.Op.UF&0x01 != 0 && replyId != r.LockId {
		// unlock-first: the LockId holds nothing, the server picked the key's oldest holder and answers under its LockId
		h = k.holder(replyId)
		first = h != nil
		if first {
			e.info.unlockFirst++
		}
	}
	r.State = k11Ended
	switch rp.Result {
	case protocol.RESULT_SUCCED:
		if h == nil {
			e.viol("C11:ledger", "unlock #%d succeeded but the ledger has no hold of that LockId on key %d", r.Idx, r.Op.Key)
			return
		}
		if h.pending {
			e.viol("C11:unlock-of-pending-hold-succeeded", "unlock #%d of a hold that is still awaiting acknowledgement (request #%d) was answered SUCCED instead of LOCK_ACK_WAITING", r.Idx, h.req.Idx)
			h.req.State = k11Ended
		}
		if first {
			if rp.LRCount > 0 { // partial release under the holder's own terms
				h.depth = int(rp.LRCount)
				return
			}
		} else if r.Op.Rc > 0 && h.depth > 1 {
			h.depth--
			return
		}
		if h.req.Op.Ack && !h.pending {
			e.info.unlockAfterAck++
		}
		k.removeHolder(h)
		if h.req.State == k11Holding {
			h.req.State = k11Ended
		}
	case protocol.RESULT_LOCK_ACK_WAITING:
		if h == nil || !h.pending {
			e.viol("C11:ack-waiting-without-pending", "unlock #%d (%v) was answered LOCK_ACK_WAITING but no hold of that LockId is awaiting acknowledgement", r.Idx, r.Op)
		} else {
			e.info.ackWaitingUnlock++
		}
	default:
		if h != nil && h.pending && rp.Result != protocol.RESULT_STATE_ERROR {
			e.viol("C11:no-ack-waiting", "unlock #%d of a LockId that is awaiting acknowledgement was answered %s instead of LOCK_ACK_WAITING", r.Idx, aResultName(rp.Result))
		} else if h != nil && (rp.Result == protocol.RESULT_UNLOCK_ERROR || rp.Result == protocol.RESULT_UNOWN_ERROR) {
			e.viol("C11:ledger", "unlock #%d of an existing hold answered %s", r.Idx, aResultName(rp.Result))
		}
	}
}

// k11BytesOpSafe: APPEND / SHIFT are only sent when they are applied at once (idle key) to a value that is
// not an array.
func k11BytesOpSafe(d *LockDB, op k11Op, before *aSnapKey) bool {
	if before == nil {
		return true
	}
	if len(before.Holders) > 0 || len(before.Waiters) > 0 {
		return false
	}
	cmd := &protocol.LockCommand{}
	cmd.DbId, cmd.LockKey = 0, aKey(op.Key)
	m := d.GetLockManager(cmd)
	if m == nil || m.currentData == nil {
		return true
	}
	return !m.currentData.IsArrayValue()
}

func k11UndoKey(r *k11Req) string {
	if r.exactUndo {
		return "C11:value-not-restored"
	}
	return k11KeyRollback
}

// k11RollbackExact: is the roll-back of op's value operation exact in the current state? (domain outside
// of which the listed finding k11KeyRollback applies: the undo is computed by an inverse operation, which
// is only right when the previous value has the operation's own type and is not the UNSET marker that a
// rolled-back first operation leaves behind; a request that may queue meets an unknown value later)
func k11RollbackExact(d *LockDB, op k11Op, before *aSnapKey) bool {
	switch op.V.Op {
	case "set", "unset", "shift", "pop":
		return true
	}
	if before == nil {
		return true
	}
	if len(before.Holders) > 0 || len(before.Waiters) > 0 {
		return false
	}
	cmd := &protocol.LockCommand{}
	cmd.DbId, cmd.LockKey = 0, aKey(op.Key)
	m := d.GetLockManager(cmd)
	if m == nil || m.currentData == nil {
		return true
	}
	cd := m.currentData
	if cd.GetData() == nil {
		return false // UNSET marker
	}
	switch op.V.Op {
	case "incr":
		return !cd.IsArrayValue() && cd.GetValueSize() == 8
	case "append":
		return true
	case "push":
		return cd.IsArrayValue()
	}
	return false
}

// ---------------------------------------------------------------------------------------------
// harness steps

func (e *k11Env) snapKey(snaps []*aSnapKey, key [16]byte) *aSnapKey {
	for _, s := range snaps {
		if s.Key == key {
			return s
		}
	}
	return nil
}

func k11SnapString(s *aSnapKey) string {
	if s == nil {
		return "<no key>"
	}
	var sb strings.Builder
	fmt.Fprintf(&sb, "locked=%d holders=[", s.Locked)
	for _, h := range s.Holders {
		fmt.Fprintf(&sb, "{id%d depth=%d awaiting-ack=%v req#%d}", k11IdIdx(h.Id), h.Depth, h.AckCount != 0xff, h.Req)
	}
	sb.WriteString("] waiters=[")
	for _, w := range s.Waiters {
		fmt.Fprintf(&sb, "#%d ", w.Req)
	}
	fmt.Fprintf(&sb, "] value=%x", s.Data)
	return sb.String()
}

// beginStep notes the value of every key before the harness acts (base for requests that leave the
// queue during the step).
func (e *k11Env) beginStep() {
	snaps := aSnapshot(0, e.db)
	e.mu.Lock()
	for _, k := range e.keys {
		k.stepApps, k.stepLeaves, k.stepRemovals = 0, 0, 0
		k.baseKnown = false
		if s := e.snapKey(snaps, k.key); s != nil {
			if v, err := aDecodeFrame(s.Data); err == nil {
				k.baseVal, k.baseKnown = v, true
			}
		} else {
			k.baseVal, k.baseKnown = nil, true
		}
	}
	e.mu.Unlock()
}

func (e *k11Env) send(op k11Op) {
	n := len(e.clients)
	op.C = op.C % n
	p := e.clients[op.C]
	k := e.key(op.Key)
	var before *aSnapKey
	snaps := aSnapshot(0, e.db)
	before = e.snapKey(snaps, aKey(op.Key))
	if op.K == "lock" {
		// out of scope (C02): a second request for a LockId that is still queued makes two holds of one LockId
		e.mu.Lock()
		for _, w := range k.waiters {
			if w.LockId == aLockId(op.Id) {
				e.logf("skipped (LockId is queued): %v", op)
				e.info.skippedDupQueued++
				e.mu.Unlock()
				return
			}
		}
		e.mu.Unlock()
		if op.V != nil && (op.V.Op == "append" || op.V.Op == "shift") && !e.noTypeGuard && !k11BytesOpSafe(e.db, op, before) {
			// C15 domain, not C11: APPEND / SHIFT applied to an array value leave a malformed array, and every later
			// walk over it (POP, the roll-back of PUSH / POP) slices out of range. Such values are not produced.
			e.logf("value operation %v replaced by set (could meet an array value)", op.V)
			b := op.V.B
			if len(b) == 0 {
				b = []byte{byte(op.V.N)}
			}
			op.V = &aVal{Op: "set", B: b}
			e.info.excludedBytesOnArray++
		}
		if op.Ack && op.V != nil && e.known(k11KeyRollback) && !k11RollbackExact(e.db, op, before) {
			e.logf("value operation %v replaced by set (known finding %s)", op.V, k11KeyRollback)
			nv := &aVal{Op: "set", B: op.V.B}
			if len(nv.B) == 0 {
				nv.B = []byte{byte(op.V.N), 0, 0, 0, 0, 0, 0, 0}
			}
			op.V = nv
			e.info.excludedRollback++
		}
	}
	r := &k11Req{Idx: len(e.reqs), Op: op, Time: e.now, Terminal: -1, LockId: aLockId(op.Id), Key: aKey(op.Key)}
	r.exactUndo = op.K == "lock" && op.V != nil && k11RollbackExact(e.db, op, before)
	e.mu.Lock()
	if h := k.holder(r.LockId); h != nil && h.pending && (e.stuck == nil || e.stuck()) && e.inst.slock.state == STATE_LEADER {
		r.expectAW = true
	} else if h == nil && op.K == "unlock" && op.UF&0x01 != 0 && before != nil && len(before.Holders) > 0 && before.Holders[0].AckCount != 0xff &&
		(e.stuck == nil || e.stuck()) && e.inst.slock.state == STATE_LEADER {
		// unlock-first falls back to the key's oldest holder, which is awaiting acknowledgement
		if fh := k.holder(before.Holders[0].Id); fh != nil && fh.pending {
			r.expectAW = true
			e.info.unlockFirstPending++
		}
	}
	if op.K == "lock" && op.V != nil {
		if before == nil {
			r.pre, r.preKnown = nil, true
		} else if v, err := aDecodeFrame(before.Data); err == nil {
			r.pre, r.preKnown = v, true
		}
	}
	if op.K == "lock" && op.Ack {
		e.info.ackReqs++
	}
	if op.K == "lock" && op.EF&0x0200 != 0 {
		e.neverAofKeys[op.Key] = true
	}
	e.reqs = append(e.reqs, r)
	e.logf("#%d %v", r.Idx, op)
	e.mu.Unlock()

	cmd := p.GetLockCommand()
	cmd.Magic, cmd.Version = protocol.MAGIC, protocol.VERSION
	if op.K == "lock" {
		cmd.CommandType = protocol.COMMAND_LOCK
	} else {
		cmd.CommandType = protocol.COMMAND_UNLOCK
	}
	cmd.RequestId = aReqId(r.Idx)
	cmd.Flag = 0
	if op.K == "unlock" {
		cmd.Flag = uint8(op.UF)
	}
	cmd.DbId = 0
	cmd.LockId, cmd.LockKey = r.LockId, r.Key
	cmd.Timeout, cmd.TimeoutFlag = uint16(op.T), 0
	if op.Ack {
		cmd.TimeoutFlag = protocol.TIMEOUT_FLAG_REQUIRE_ACKED
	}
	cmd.Expried, cmd.ExpriedFlag = uint16(op.E), uint16(op.EF)
	cmd.Count, cmd.Rcount = uint16(op.Cnt), uint8(op.Rc)
	cmd.Data = nil
	if op.V != nil {
		cmd.Data = op.V.commandData()
		cmd.Flag |= protocol.LOCK_FLAG_CONTAINS_DATA
	}
	_ = p.ProcessLockCommand(cmd)

	if r.expectAW {
		e.mu.Lock()
		if r.Terminal < 0 || r.Replies[r.Terminal].Result != protocol.RESULT_LOCK_ACK_WAITING {
			got := "no reply"
			if r.Terminal >= 0 {
				got = aResultName(r.Replies[r.Terminal].Result)
			}
			e.viol("C11:no-ack-waiting", "request #%d (%v) targets a LockId whose hold awaits acknowledgement; expected LOCK_ACK_WAITING, got %s", r.Idx, op, got)
		}
		e.mu.Unlock()
		if e.held || e.parked || e.stuck != nil {
			after := e.snapKey(aSnapshot(0, e.db), r.Key)
			if a, b := k11SnapString(before), k11SnapString(after); a != b {
				e.mu.Lock()
				e.viol("C11:ack-waiting-changed-state", "request #%d (%v) was refused with LOCK_ACK_WAITING but changed the key: before %s, after %s", r.Idx, op, a, b)
				e.mu.Unlock()
			}
		}
	}
}

func (e *k11Env) tickOne() {
	d := e.db
	e.now++
	d.currentTime = e.now
	c := d.checkTimeoutTime
	d.checkTimeoutTime = e.now + 1
	for ; c <= e.now; c++ {
		for i := uint16(0); i < d.managerMaxGlocks; i++ {
			d.checkTimeTimeOut(c, e.now, i, e.toQ[i])
		}
	}
	c = d.checkExpriedTime
	d.checkExpriedTime = e.now + 1
	for ; c <= e.now; c++ {
		for i := uint16(0); i < d.managerMaxGlocks; i++ {
			d.checkTimeExpried(c, e.now, i, e.exQ[i])
		}
	}
}

func (e *k11Env) tick(n int) {
	for s := 0; s < n; s++ {
		e.tickOne()
		if !e.held && !e.parked {
			if !e.quiesce() {
				return
			}
		} else if e.parked && !k11QueuesIdle(e.inst.slock.aof) {
			e.inconcl = "persistence queues did not drain while the flush was parked"
			return
		}
		if s+1 < n {
			e.reconcile(fmt.Sprintf("during tick (second %d)", s+1))
			e.beginStep()
		}
	}
}

func (e *k11Env) pendingUnanswered() []*k11Req {
	var out []*k11Req
	for _, r := range e.reqs {
		if r.Op.K == "lock" && r.Op.Ack && r.Terminal < 0 && !r.doomed && (r.State == k11Pending || r.State == k11New) {
			out = append(out, r)
		}
	}
	return out
}

// quiesce waits until the persistence queues are idle and no ack-pending request is unanswered.
// An ack-required request can stay unanswered legitimately only while it is queued.
func (e *k11Env) quiesce() bool {
	aof := e.inst.slock.aof
	deadline := time.Now().Add(8 * time.Second)
	idleSince := time.Time{}
	for {
		if !vAofIdle(aof) {
			e.inconcl = "persistence queue did not drain within the watchdog"
			return false
		}
		e.classify()
		e.mu.Lock()
		pend := e.pendingUnanswered()
		e.mu.Unlock()
		if len(pend) == 0 {
			return true
		}
		if idleSince.IsZero() {
			idleSince = time.Now()
		}
		if time.Since(idleSince) > 1500*time.Millisecond {
			// nothing is left that could answer: confirm from in-package state
			aof.aofGlock.Lock()
			stuck := aof.aofFile == nil || (aof.aofFile.windex == 0 && aof.aofFile.ackIndex == 0)
			aof.aofGlock.Unlock()
			e.mu.Lock()
			if stuck && e.ackGate == nil {
				e.viol("C11:no-reply", "ack-required request #%d (%v) is unanswered although the persistence queues are empty, the append file buffer is flushed and nothing is in flight", pend[0].Idx, pend[0].Op)
				for _, r := range pend {
					r.State = k11Ended
					if h := e.key(r.Op.Key).holder(r.LockId); h != nil && h.req == r {
						e.key(r.Op.Key).removeHolder(h)
					}
				}
				e.mu.Unlock()
				return true
			}
			e.mu.Unlock()
			if e.ackGate == nil || time.Now().After(deadline) {
				e.inconcl = fmt.Sprintf("ack-required request #%d still unanswered after the watchdog", pend[0].Idx)
				return false
			}
		}
		if time.Now().After(deadline) {
			e.inconcl = "quiescence watchdog"
			return false
		}
		time.Sleep(100 * time.Microsecond)
	}
}

// classify moves requests without a terminal reply into the ledger according to the in-package
// snapshot: ack-pending holder or queued.
func (e *k11Env) classify() {
	snaps := aSnapshot(0, e.db)
	e.mu.Lock()
	defer e.mu.Unlock()
	for _, r := range e.reqs {
		if r.Op.K != "lock" || r.Terminal >= 0 || (r.State != k11New && r.State != k11Queued) {
			continue
		}
		k := e.key(r.Op.Key)
		s := e.snapKey(snaps, r.Key)
		var sh *aSnapHold
		queued := false
		if s != nil {
			for i := range s.Holders {
				if s.Holders[i].Req == r.Idx {
					sh = &s.Holders[i]
				}
			}
			for _, w := range s.Waiters {
				if w.Req == r.Idx {
					queued = true
				}
			}
		}
		switch {
		case sh != nil && sh.AckCount != 0xff:
			if !r.Op.Ack {
				e.viol("C11:ledger", "request #%d without the require-ack flag is awaiting acknowledgement", r.Idx)
			}
			if r.State == k11Queued {
				k.removeWaiter(r)
				k.stepLeaves++
				e.info.ackFromQueue++
				// value before its operation = value the key had when the step began (or the value restored by
				// the roll-back of the failed predecessor), provided this is the only request that left the queue
				// in this step and nothing else applied a value
				r.preKnown = false
				if r.Op.V != nil && k.baseKnown && k.stepApps == 0 && k.stepLeaves == 1 {
					r.pre, r.preKnown = k.baseVal, true
				}
			} else {
				e.info.ackFresh++
			}
			if k.holder(r.LockId) != nil {
				e.viol("C11:ledger", "request #%d became a second hold of its LockId", r.Idx)
			}
			k.holders = append(k.holders, &k11Hold{id: r.LockId, depth: 1, pending: true, req: r, count: r.Op.Cnt})
			r.State = k11Pending
			if r.Op.V != nil {
				k.valSeq++
				k.stepApps++
				k.baseKnown = false
				r.applySeq = k.valSeq
			}
			np := 0
			for _, kk := range e.keys {
				for _, h := range kk.holders {
					if h.pending {
						np++
					}
				}
			}
			if np > e.info.pendingMax {
				e.info.pendingMax = np
			}
		case sh != nil:
			e.viol("C11:granted-without-reply", "request #%d (%v) holds the key as a normal hold (AckCount 0xff) but was never answered", r.Idx, r.Op)
			r.State = k11Ended
		case queued:
			if r.State == k11New {
				r.State = k11Queued
				k.waiters = append(k.waiters, r)
				for _, h := range k.holders {
					if h.pending {
						e.info.queuedBehindPending++
						break
					}
				}
			}
		default:
			if e.held || e.ackGate != nil {
				// between the snapshot and now a reply may have arrived (cluster) - re-checked next round
				continue
			}
		}
	}
}

// reconcile compares ledger and snapshot; called when nothing asynchronous can be running.
func (e *k11Env) reconcile(where string) {
	e.classify()
	snaps := aSnapshot(0, e.db)
	e.mu.Lock()
	defer e.mu.Unlock()
	idxs := make([]int, 0, len(e.keys))
	for i := range e.keys {
		idxs = append(idxs, i)
	}
	sort.Ints(idxs)
	for _, i := range idxs {
		k := e.keys[i]
		s := e.snapKey(snaps, k.key)
		if s == nil {
			s = &aSnapKey{}
		}
		// holders
		want := map[[16]byte]*k11Hold{}
		for _, h := range k.holders {
			want[h.id] = h
		}
		bad := len(s.Holders) != len(k.holders)
		for _, sh := range s.Holders {
			h := want[sh.Id]
			if h == nil || int(sh.Depth) != h.depth || (sh.AckCount != 0xff) != h.pending {
				bad = true
			}
		}
		if bad {
			var sb strings.Builder
			for _, h := range k.holders {
				fmt.Fprintf(&sb, "{id%d depth=%d pending=%v req#%d}", k11IdIdx(h.id), h.depth, h.pending, h.req.Idx)
			}
			key := "C11:hold-state-mismatch"
			for _, sh := range s.Holders {
				if h := want[sh.Id]; h != nil && !h.pending && sh.AckCount != 0xff {
					key = "C11:answered-hold-still-awaiting-ack"
				}
				if want[sh.Id] == nil && sh.Req >= 0 && sh.Req < len(e.reqs) && e.reqs[sh.Req].failed {
					key = "C11:failed-hold-not-removed"
				}
			}
			e.viol(key, "%s: key %d: server state %s; reply history says holders [%s]", where, i, k11SnapString(s), sb.String())
			// resynchronise the ledger so that one defect is reported once
			k.holders = nil
			for _, sh := range s.Holders {
				var rq *k11Req
				if sh.Req >= 0 && sh.Req < len(e.reqs) {
					rq = e.reqs[sh.Req]
				} else {
					rq = &k11Req{Idx: -1}
				}
				k.holders = append(k.holders, &k11Hold{id: sh.Id, depth: int(sh.Depth), pending: sh.AckCount != 0xff, req: rq, count: int(sh.Count)})
			}
		}
		// waiters
		ws := map[int]bool{}
		for _, w := range s.Waiters {
			ws[w.Req] = true
		}
		wbad := len(ws) != len(k.waiters)
		for _, w := range k.waiters {
			if !ws[w.Idx] {
				wbad = true
			}
		}
		if wbad {
			var sb strings.Builder
			for _, w := range k.waiters {
				fmt.Fprintf(&sb, "#%d ", w.Idx)
			}
			e.viol("C11:queue-state-mismatch", "%s: key %d: server state %s; reply history says queued [%s]", where, i, k11SnapString(s), sb.String())
			k.waiters = nil
			for _, w := range s.Waiters {
				if w.Req >= 0 && w.Req < len(e.reqs) {
					k.waiters = append(k.waiters, e.reqs[w.Req])
				}
			}
		}
		// queued requests are served after a pending hold was removed
		if k.checkWake != "" {
			if len(s.Waiters) > 0 {
				if k.staleWake && e.knownSuffix(k11SufNoWake) {
					e.info.staleWakeSkips++
				} else {
					e.info.wakeChecks++
					head := s.Waiters[0]
					cnt := -1
					if head.Req >= 0 && head.Req < len(e.reqs) {
						cnt = e.reqs[head.Req].Op.Cnt
					}
					adm := s.Locked == 0 || (cnt > 0 && len(s.Holders) > 0 && int(s.Locked) <= int(s.Holders[0].Count) && int(s.Locked) <= cnt)
					if adm && cnt >= 0 {
						e.viol("C11:waiter-not-served", "%s: key %d: after %s the queued request #%d (Count %d) is at the head of the queue and admissible (%s) but was not granted", where, i, k.checkWake, head.Req, cnt, k11SnapString(s))
					}
				}
			}
			k.checkWake = ""
		}
		k.staleWake = false
		// the value change of a failed request stays undone
		for _, r := range e.reqs {
			if r.undoCheck && r.Op.Key == i {
				r.undoCheck = false
				if k.valSeq != r.undoSeq || (len(s.Holders) == 0 && len(s.Waiters) == 0) {
					continue
				}
				got, err := aDecodeFrame(s.Data)
				e.info.valueRestoreSnapChecked++
				if err != nil || !aValueEqual(got, r.pre) {
					e.viol(k11UndoKey(r), "%s: key %d holds value %s (err %v) after ack request #%d (%v) failed; before the request it was %s", where, i, got.String(), err, r.Idx, r.Op, r.pre.String())
					e.sig("stored op=%s before=%s after=%s", r.Op.V.Op, k11ValKind(r.pre), k11ValKind(got))
				}
			}
		}
	}
}

// park suppresses the leader's flush-when-idle: Aof.waitLockAofChannel / syncFileAofChannel flush only when
// channelActiveCount is 0, i.e. when no other shard's channel is busy. The harness adds one to that counter -
// the state "another shard's writer is still busy" - so records pass Aof.PushLock (buffered in the append file,
// registered for acknowledgement, pushed to the replication ring) but are not written. Hook point 20 (entry of
// AofFile.Flush) cannot produce this state by itself: blocked in the key's own channel goroutine it also blocks
// the follower acknowledgements queued behind it, blocked in another channel it holds Aof.aofGlock and keeps the
// record out of PushLock. On a single node point 20 is still used as a stopper for the flushes that do not go
// through the idle path (buffer full inside WriteLock): they block there until unpark.
func (e *k11Env) park() {
	if e.parked || e.held {
		return
	}
	aof := e.inst.slock.aof
	if e.ackGate == nil {
		k11ParkHook.arm()
	}
	atomic.AddUint32(&aof.channelActiveCount, 1)
	e.parked = true
	e.info.parkPhases++
	e.logf("parkflush: leader's idle flush suppressed")
}

func (e *k11Env) unpark() bool {
	if !e.parked {
		return true
	}
	aof := e.inst.slock.aof
	e.info.parkHookBlocks += k11ParkHook.disarm()
	atomic.AddUint32(&aof.channelActiveCount, 0xffffffff)
	// what the last channel to go idle does (Aof.waitLockAofChannel)
	aof.aofGlock.Lock()
	if aof.aofFile != nil {
		if aof.aofFile.windex > 0 {
			e.mu.Lock()
			e.info.parkedWithBuffered++
			e.mu.Unlock()
		}
		_ = aof.aofFile.Flush()
	}
	if aof.channelFlushWaiter != nil {
		close(aof.channelFlushWaiter)
		aof.channelFlushWaiter = nil
	}
	aof.aofGlock.Unlock()
	e.parked = false
	e.mu.Lock()
	e.logf("unparkflush")
	e.mu.Unlock()
	if e.ackGate != nil {
		return true
	}
	return e.quiesce()
}

// k11ParkHook blocks flushes at hook point 20 while armed (single node only: with several instances in the
// process the hook cannot tell whose flush it is).
type k11ParkHookT struct {
	mu      sync.Mutex
	armed   bool
	release chan struct{}
	blocked int
}

var k11ParkHook k11ParkHookT

func (h *k11ParkHookT) arm() {
	h.mu.Lock()
	h.armed, h.release, h.blocked = true, make(chan struct{}), 0
	h.mu.Unlock()
}

func (h *k11ParkHookT) disarm() int {
	h.mu.Lock()
	defer h.mu.Unlock()
	if !h.armed {
		return 0
	}
	h.armed = false
	close(h.release)
	return h.blocked
}

func (h *k11ParkHookT) yield(point int) {
	if point != verifPointAofFlushStart {
		return
	}
	h.mu.Lock()
	if !h.armed {
		h.mu.Unlock()
		return
	}
	h.blocked++
	rel := h.release
	h.mu.Unlock()
	<-rel
}

// k11QueuesIdle: every persistence queue of the instance empty and its goroutine waiting, seen three times in a
// row; does not touch Aof.aofGlock / WaitFlushAofChannel (usable while the flush is parked). false = watchdog.
func k11QueuesIdle(aof *Aof) bool {
	deadline := time.Now().Add(8 * time.Second)
	stable := 0
	for time.Now().Before(deadline) {
		// a flush blocked at hook point 20 owns Aof.aofGlock: like a hold phase, nothing asynchronous can complete
		k11ParkHook.mu.Lock()
		blocked := k11ParkHook.armed && k11ParkHook.blocked > 0
		k11ParkHook.mu.Unlock()
		if blocked {
			return true
		}
		busy := false
		aof.glock.Lock()
		chans := append([]*AofChannel{}, aof.channels...)
		aof.glock.Unlock()
		for _, ch := range chans {
			ch.queueGlock.Lock()
			if ch.queueCount != 0 || !ch.queuePulled {
				busy = true
			}
			ch.queueGlock.Unlock()
		}
		if !busy {
			stable++
			if stable >= 3 {
				return true
			}
		} else {
			stable = 0
		}
		time.Sleep(50 * time.Microsecond)
	}
	return false
}

func (e *k11Env) hold() {
	if e.parked || e.held {
		return
	}
	e.inst.slock.aof.aofGlock.Lock()
	e.held = true
	e.info.holdPhases++
	e.logf("hold: append file writers parked")
}

func (e *k11Env) release(fault string) bool {
	if !e.held {
		return true
	}
	aof := e.inst.slock.aof
	f := aof.aofFile
	e.mu.Lock()
	if f != nil {
		switch fault {
		case "file":
			if f.file != nil {
				e.closedFile = f.file
				_ = f.file.Close()
				e.faultActive = "file"
			}
		case "data":
			if f.dataFile != nil {
				e.closedData = f.dataFile
				_ = f.dataFile.Close()
				e.faultActive = "data"
			}
		}
	}
	e.logf("release (fault=%q active=%q)", fault, e.faultActive)
	e.mu.Unlock()
	e.held = false
	aof.aofGlock.Unlock()
	ok := e.quiesce()
	// repair
	aof.aofGlock.Lock()
	if f != nil && e.faultActive != "" {
		if e.closedFile != nil && f.file == e.closedFile {
			if nf, err := os.OpenFile(f.filename, os.O_WRONLY|os.O_APPEND|os.O_CREATE, 0644); err == nil {
				f.file = nf
			}
		}
		if e.closedData != nil && f.dataFile == e.closedData {
			if nf, err := os.OpenFile(f.filename+".dat", os.O_WRONLY|os.O_APPEND|os.O_CREATE, 0644); err == nil {
				f.dataFile = nf
			}
		}
		f.windex, f.dwindex = 0, 0
	}
	aof.aofGlock.Unlock()
	e.mu.Lock()
	e.faultActive, e.closedFile, e.closedData = "", nil, nil
	e.mu.Unlock()
	return ok
}

// ---------------------------------------------------------------------------------------------
// executor

type k11Out struct {
	info         k11Info
	viols        []k11Viol
	inconclusive string
	history      string
}

func (o *k11Out) err() error {
	if len(o.viols) == 0 {
		return nil
	}
	var sb strings.Builder
	for _, v := range o.viols {
		fmt.Fprintf(&sb, "%s: %s\n", v.Key, v.Msg)
	}
	sb.WriteString("history:\n")
	sb.WriteString(o.history)
	return fmt.Errorf("%s", sb.String())
}

func (e *k11Env) step(op k11Op) bool {
	e.beginStep()
	switch op.K {
	case "lock", "unlock":
		e.send(op)
	case "tick":
		e.logf("tick %d", op.N)
		e.tick(op.N)
	case "hold":
		e.hold()
	case "release":
		if !e.release(op.Fault) {
			return false
		}
	case "parkflush":
		e.park()
	case "unparkflush":
		if !e.unpark() {
			return false
		}
	}
	if e.inconcl != "" {
		return false
	}
	if !e.held && !e.parked {
		if !e.quiesce() {
			return false
		}
	} else if e.parked && !k11QueuesIdle(e.inst.slock.aof) {
		e.inconcl = "persistence queues did not drain while the flush was parked"
		return false
	}
	e.reconcile("after " + op.String())
	// upper bound of the ack wait (hold / park phases only: nothing can acknowledge)
	if e.held || e.parked {
		e.mu.Lock()
		for _, r := range e.reqs {
			if r.State == k11Pending && r.Terminal < 0 && e.now-r.Time >= int64(r.Op.T)+3 {
				e.viol("C11:ack-wait-not-timed-out", "request #%d (T=%d, sent at t+%d) is still awaiting acknowledgement at t+%d", r.Idx, r.Op.T, r.Time-e.epoch, e.now-e.epoch)
				r.Time = e.now + 1000
			}
		}
		e.mu.Unlock()
	}
	return true
}

var k11Panics int64

func k11RunSingle(c *k11Case) k11Out { return k11RunSingleOpts(c, false) }

// k11RunSingleOpts: replay = true switches the tolerance of listed findings off (a replay must show them).
func k11RunSingleOpts(c *k11Case, replay bool) (out k11Out) {
	e, err := k11NewEnv(c, vInstOpts{DBConcurrent: uint(c.Conc), DBFastKeyCount: uint(c.FastKeys), AofFileBufferSize: uint(c.AofBuf), NoCheckLoop: true, DBLockAofTime: 0}, nil)
	if err != nil {
		out.inconclusive = "instance: " + err.Error()
		return
	}
	if replay {
		e.known = func(string) bool { return false }
		e.knownSuffix = e.known
	}
	defer func() {
		if p := recover(); p != nil {
			atomic.AddInt64(&k11Panics, 1)
			if e.held {
				// the panic unwound through the harness while it owned the append-file mutex
				e.held = false
				e.inst.slock.aof.aofGlock.Unlock()
			}
			if e.parked {
				e.parked = false
				k11ParkHook.disarm()
				atomic.AddUint32(&e.inst.slock.aof.channelActiveCount, 0xffffffff)
			}
			e.mu.TryLock()
			e.mu.Unlock()
			e.viol("C11:panic", "panic in the harness goroutine: %v\n%s", p, k11RepoFrames(string(debug.Stack())))
			out.viols, out.history, out.info = e.viols, e.history(), e.info
			go func() { e.closeClients(); e.inst.vClose(false, true) }()
		}
	}()
	ok := true
	for _, op := range c.Ops {
		if !e.step(op) {
			ok = false
			break
		}
	}
	if ok && e.held {
		ok = e.step(k11Op{K: "release"})
	}
	if ok && e.parked {
		ok = e.step(k11Op{K: "unparkflush"})
	}
	abandon := false
	if ok {
		if s := aScanFreed(e.db); s != "" {
			abandon = true // LockDB.Close would walk the wheel and dereference the freed object
			e.mu.Lock()
			key := "C11:freed-lock-reachable"
			if c.AofBuf < 4096 {
				key = k11KeyTwice
			}
			e.viol(key, "%s", s)
			e.mu.Unlock()
		}
	}
	if e.held {
		e.held = false
		e.inst.slock.aof.aofGlock.Unlock()
	}
	if e.parked {
		e.parked = false
		k11ParkHook.disarm()
		atomic.AddUint32(&e.inst.slock.aof.channelActiveCount, 0xffffffff)
	}
	e.mu.Lock()
	out.viols, out.history, out.info, out.inconclusive = e.viols, e.history(), e.info, e.inconcl
	e.mu.Unlock()
	e.closeClients()
	if abandon {
		atomic.AddInt64(&vAbandoned, 1)
		return
	}
	if dbg := os.Getenv("VERIF_K11_DEBUG"); dbg != "" {
		b, _ := json.Marshal(map[string]interface{}{"key": "C11:probe", "case": c})
		_ = os.WriteFile(dbg, append(b, []byte("\n"+out.history)...), 0644)
	}
	e.inst.vClose(false, true)
	return
}

func k11RepoFrames(stack string) string {
	var keep []string
	lines := strings.Split(stack, "\n")
	for i := 0; i+1 < len(lines); i++ {
		if strings.Contains(lines[i+1], "/server/") && !strings.Contains(lines[i+1], "zz_verif") && !strings.Contains(lines[i+1], "_test.go") {
			keep = append(keep, strings.TrimSpace(lines[i])+" "+strings.TrimSpace(lines[i+1]))
		}
	}
	if len(keep) > 8 {
		keep = keep[:8]
	}
	return strings.Join(keep, "\n")
}
