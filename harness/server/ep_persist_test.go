package server

// Engine P: persistence (C07 restart recovery; C08 crash at any byte; C16 compaction).
// Instance 1 runs a generated history (engine A grammar restricted to Timeout 0 and expiries far from
// the restart instant) on a virtual clock that lags the wall clock by EpochOff seconds - which is
// indistinguishable from an outage of that length - then quiesces; directory images are recovered by
// fresh instances on the wall clock and their in-package snapshots are compared.

import (
	"fmt"
	"os"
	"path/filepath"
	"sort"
	"strings"
	"sync/atomic"
	"testing"
	"time"

	"pgregory.net/rapid"
)

type pHold struct {
	Db       int
	Key      [16]byte
	Id       [16]byte
	Depth    int
	Count    int
	Rcount   int
	Deadline int64 // absolute seconds; 1<<62 = unlimited
	Unit     int64
	IsAof    bool
}

type pState struct {
	Holds  map[string]*pHold // db/key/id
	Values map[string][]byte // db/key
}

func (h *pHold) name() string { return fmt.Sprintf("%d/%x/%x", h.Db, h.Key[:2], h.Id[:3]) }

func pSnapshot(slock *SLock) *pState {
	st := &pState{Holds: map[string]*pHold{}, Values: map[string][]byte{}}
	for di, d := range slock.dbs {
		if d == nil || di > 1 {
			continue
		}
		for _, k := range aSnapshot(di, d) {
			for _, h := range k.Holders {
				ph := &pHold{Db: di, Key: k.Key, Id: h.Id, Depth: int(h.Depth), Count: int(h.Count), Rcount: int(h.Rcount), Deadline: h.ExpriedTime, Unit: 1, IsAof: h.IsAof}
				if h.EF&efUNLIMITED != 0 || h.ExpriedTime > 1<<61 {
					ph.Deadline = 1 << 62
				}
				if h.EF&efMINUTE != 0 {
					ph.Unit = 60
				}
				st.Holds[ph.name()] = ph
			}
			if k.Data != nil {
				st.Values[fmt.Sprintf("%d/%x", di, k.Key[:2])] = k.Data
			}
		}
	}
	return st
}

func (st *pState) String() string {
	var names []string
	for n := range st.Holds {
		names = append(names, n)
	}
	sort.Strings(names)
	var sb strings.Builder
	for _, n := range names {
		h := st.Holds[n]
		dl := "unlimited"
		if h.Deadline < 1<<61 {
			dl = fmt.Sprintf("wall%+d", h.Deadline-time.Now().Unix())
		}
		fmt.Fprintf(&sb, "  %s depth=%d count=%d rcount=%d deadline=%s aof=%v\n", n, h.Depth, h.Count, h.Rcount, dl, h.IsAof)
	}
	for k, v := range st.Values {
		fmt.Fprintf(&sb, "  value %s = %x\n", k, v)
	}
	return sb.String()
}

// pRecover starts a fresh leader on (a copy of) the directory and returns its snapshot.
func pRecover(c *aCase, dir string) (*pState, *vInst, error) {
	hasAppend := false
	if ents, err := os.ReadDir(dir); err == nil {
		for _, e := range ents {
			if strings.HasPrefix(e.Name(), "append.aof.") && !strings.HasSuffix(e.Name(), ".dat") {
				hasAppend = true
			}
		}
	}
	endedBefore := atomic.LoadInt64(&vRewriteEnded)
	// Known finding C07:startup-compaction-races-with-load: LoadAndInit starts the compaction right after
	// Aof.WaitFlushAofChannel(), which can return while loaded records are still being replayed; the compaction then
	// drops the records of holds it does not see yet. While that finding is listed the start-up compaction is held
	// at its entry hook until the replay queue is really idle.
	var gate chan struct{}
	if pKnownStartupRace {
		gate = make(chan struct{})
		vSetYieldExtra(func(point int) {
			if point == verifPointAofRewrite {
				<-gate
			}
		})
		defer vSetYieldExtra(func(int) {})
	}
	inst, err := vNewInst(vInstOpts{DBConcurrent: uint(c.Conc), DBFastKeyCount: uint(c.FastKeys), DBLockAofTime: uint(c.AofTime), NoCheckLoop: true,
		AofFileBufferSize: uint(c.AofBuf), AofFileRewriteSize: uint(c.RewriteSize), DataDir: dir})
	if err != nil {
		if gate != nil {
			close(gate)
		}
		return nil, nil, err
	}
	vAofIdle(inst.slock.aof)
	if gate != nil {
		close(gate)
	}
	// LoadAndInit starts a compaction (goroutine) when append files exist: wait for exactly that one
	ok := true
	if hasAppend {
		ok = vWaitRewriteAfter(endedBefore)
	} else {
		ok = vWaitRewriteAfter(-1)
	}
	if !ok {
		fmt.Println("VERIF-INCONCLUSIVE start-up compaction did not finish within the watchdog")
		os.Exit(3)
	}
	vAofIdle(inst.slock.aof)
	return pSnapshot(inst.slock), inst, nil
}

const pKeyStartupRace = "C07:startup-compaction-races-with-load"

var pKnownStartupRace = vIsKnown(pKeyStartupRace)

const pMargin = 6 // seconds around the restart instant inside which a hold may or may not survive

// pCompareRecovered: got must contain exactly the holds of want that are persisted and still alive at wall time `at`.
func pCompareRecovered(want, got *pState, at int64, what string) error {
	for n, h := range want.Holds {
		if !h.IsAof {
			if g := got.Holds[n]; g != nil {
				return fmt.Errorf("%s: hold %s was never persisted but was restored", what, n)
			}
			continue
		}
		g := got.Holds[n]
		alive := h.Deadline-at > pMargin+h.Unit
		dead := h.Deadline-at < -pMargin
		if g == nil {
			if alive {
				return fmt.Errorf("%s: persisted hold %s (deadline in %d s) was not restored", what, n, h.Deadline-at)
			}
			continue
		}
		if dead {
			return fmt.Errorf("%s: hold %s expired %d s before the restart but was restored", what, n, at-h.Deadline)
		}
		if g.Depth != h.Depth || g.Count != h.Count || g.Rcount != h.Rcount {
			return fmt.Errorf("%s: hold %s restored with depth=%d count=%d rcount=%d, had depth=%d count=%d rcount=%d", what, n, g.Depth, g.Count, g.Rcount, h.Depth, h.Count, h.Rcount)
		}
		if (h.Deadline > 1<<61) != (g.Deadline > 1<<61) {
			return fmt.Errorf("%s: hold %s unlimited-expiry changed across the restart", what, n)
		}
		if h.Deadline < 1<<61 {
			d := g.Deadline - h.Deadline
			if d > h.Unit+1 || d < -(h.Unit+1) {
				return fmt.Errorf("%s: hold %s deadline moved by %d s across the restart (allowed: one unit of %d s plus a second)", what, n, d, h.Unit)
			}
		}
	}
	for n := range got.Holds {
		if want.Holds[n] == nil {
			return fmt.Errorf("%s: hold %s was restored but is not outstanding on the original instance", what, n)
		}
	}
	// values of keys whose holders were all persisted and survive
	perKey := map[string][2]int{}
	for _, h := range want.Holds {
		k := fmt.Sprintf("%d/%x", h.Db, h.Key[:2])
		c := perKey[k]
		c[0]++
		if h.IsAof && h.Deadline-at > pMargin+h.Unit {
			c[1]++
		}
		perKey[k] = c
	}
	for k, c := range perKey {
		if c[0] == c[1] {
			wv, _ := aDecodeFrame(want.Values[k])
			gv, _ := aDecodeFrame(got.Values[k])
			if !aValueEqual(wv, gv) {
				return fmt.Errorf("%s: key %s value restored as %s, was %s", what, k, gv, wv)
			}
		}
	}
	return nil
}

// pEqualStates: two recoveries of equivalent directory images (done within a second or two of each other).
func pEqualStates(a, b *pState, what string) error {
	for n, h := range a.Holds {
		g := b.Holds[n]
		if g == nil {
			return fmt.Errorf("%s: hold %s recovered from the first image only\nfirst:\n%ssecond:\n%s", what, n, a, b)
		}
		if g.Depth != h.Depth || g.Count != h.Count || g.Rcount != h.Rcount || (h.Deadline > 1<<61) != (g.Deadline > 1<<61) {
			return fmt.Errorf("%s: hold %s differs between the two recoveries\nfirst:\n%ssecond:\n%s", what, n, a, b)
		}
		if h.Deadline < 1<<61 {
			d := g.Deadline - h.Deadline
			if d > h.Unit+2 || d < -(h.Unit+2) {
				return fmt.Errorf("%s: hold %s deadline differs by %d s between the two recoveries", what, n, d)
			}
		}
	}
	for n := range b.Holds {
		if a.Holds[n] == nil {
			return fmt.Errorf("%s: hold %s recovered from the second image only\nfirst:\n%ssecond:\n%s", what, n, a, b)
		}
	}
	for k, v := range a.Values {
		av, _ := aDecodeFrame(v)
		bv, _ := aDecodeFrame(b.Values[k])
		if !aValueEqual(av, bv) {
			return fmt.Errorf("%s: value of key %s differs between the two recoveries (%s vs %s)", what, k, av, bv)
		}
	}
	for k, v := range b.Values {
		if _, ok := a.Values[k]; !ok {
			bv, _ := aDecodeFrame(v)
			if bv != nil {
				return fmt.Errorf("%s: value of key %s only in the second recovery", what, k)
			}
		}
	}
	return nil
}

// ---------------------------------------------------------------------------------------------
// generation

var pProfile = aProfile{prop: "C07", values: 30, timers: 6, bursts: false, prioBias: 3, updBias: 14, persist: true}

func pGenCase(t *rapid.T, prop string) *aCase {
	c := &aCase{Prop: prop}
	c.Conc = rapid.SampledFrom([]int{1, 2, 2, 4}).Draw(t, "conc")
	c.FastKeys = rapid.SampledFrom([]int{1, 4, 64}).Draw(t, "fastKeys")
	c.AofTime = rapid.SampledFrom([]int{0, 0, 1}).Draw(t, "aofTime")
	c.Clients = rapid.IntRange(1, 3).Draw(t, "clients")
	c.AofBuf = rapid.SampledFrom([]int{64, 128, 256, 4096}).Draw(t, "aofBuf")
	c.RewriteSize = 0 // size-triggered compaction runs in a goroutine concurrently with the workload: C16 only
	c.EpochOff = rapid.SampledFrom([]int{15, 45, 130}).Draw(t, "epochOff")
	return c
}

type pInfo struct {
	files      int
	dataFile   bool
	released   bool
	persisted  int
	restored   int
	expiredOut int
	rotations  int
}

func pDirInfo(dir string, info *pInfo) {
	ents, _ := os.ReadDir(dir)
	for _, e := range ents {
		n := e.Name()
		if strings.HasSuffix(n, ".dat") {
			if fi, err := e.Info(); err == nil && fi.Size() > 0 {
				info.dataFile = true
			}
		} else if strings.HasPrefix(n, "append.aof.") || n == "rewrite.aof" {
			info.files++
		}
	}
}

// pMustPersist: C07's "every hold taken with the persist-immediately flag and every hold older than the
// configured persistence delay counts as persisted; holds taken with the never-persist flag are not restored".
func pCheckPersistedSet(e *aEnv, s1 *pState) error {
	for _, k := range e.mon.keys {
		for _, h := range k.holders {
			name := (&pHold{Db: k.db, Key: k.key, Id: h.id}).name()
			sh := s1.Holds[name]
			if sh == nil {
				continue
			}
			untouched := h.setter == h.grantReq
			never := h.grantEf&0x0200 != 0 && h.first && untouched
			if never && sh.IsAof && h.grantEf&0x0100 == 0 {
				return fmt.Errorf("hold %s was taken with the never-persist flag but is persisted", name)
			}
			// "older than the configured persistence delay": strictly older, and only for a hold whose terms were
			// never replaced (a re-lock / update restarts its age)
			must := (h.grantEf&0x1300 == 0x0100 && h.first) || (h.grantEf&0x1300 == 0 && h.first && untouched && e.now-h.grantAt > int64(e.c.AofTime))
			if must && !sh.IsAof {
				return fmt.Errorf("hold %s (first holder of its key, expiry flags %#x, age %d s, persistence delay %d s) is not persisted at a quiescent point", name, h.grantEf, e.now-h.grantAt, e.c.AofTime)
			}
		}
	}
	return nil
}

func pRunHistory(c *aCase, next func(e *aEnv) []aOp) (*aEnv, string) {
	c.DataDir = vScratchDir("p1")
	e, err := aNewEnv(c)
	if err != nil {
		return nil, "cannot create instance: " + err.Error()
	}
	for {
		ops := next(e)
		if ops == nil {
			break
		}
		for _, op := range ops {
			if msg := aSafe(e, func() { e.apply(op) }); msg != "" {
				return e, msg
			}
		}
	}
	if msg := aSafe(e, func() { e.quiesce() }); msg != "" {
		return e, msg
	}
	return e, ""
}

func pC07(c *aCase, next func(e *aEnv) []aOp) (info pInfo, err error) {
	e, msg := pRunHistory(c, next)
	if e == nil {
		return info, fmt.Errorf("%s", msg)
	}
	if msg != "" {
		return info, fmt.Errorf("%s\n%s", msg, e.history())
	}
	s1 := pSnapshot(e.inst.slock)
	if err := pCheckPersistedSet(e, s1); err != nil {
		hist := e.history()
		e.close()
		return info, fmt.Errorf("%v\n--- history ---\n%s", err, hist)
	}
	for _, k := range e.mon.keys {
		_ = k
	}
	info.released = e.mon.info.holdEndKinds["unlock"] || e.mon.info.holdEndKinds["unlock-one-level"]
	d2 := vScratchDir("p2")
	cerr := vCopyDir(c.DataDir, d2)
	pDirInfo(d2, &info)
	hist := e.history()
	e.close()
	if cerr != nil {
		return info, cerr
	}
	for _, h := range s1.Holds {
		if h.IsAof {
			info.persisted++
		}
	}
	if os.Getenv("VERIF_P_DUMP") != "" {
		fmt.Println(hist)
		fmt.Println(pDumpDir(d2))
	}
	at := time.Now().Unix()
	s2, inst2, rerr := pRecover(c, d2)
	if rerr != nil {
		return info, fmt.Errorf("restart failed: %v\n--- history ---\n%s", rerr, hist)
	}
	info.restored = len(s2.Holds)
	for _, h := range s1.Holds {
		if h.IsAof && h.Deadline < at {
			info.expiredOut++
		}
	}
	if err := pCompareRecovered(s1, s2, at, "first restart"); err != nil {
		inst2.vClose(false, true)
		return info, fmt.Errorf("%v\noriginal (quiescent):\n%srecovered:\n%s--- history ---\n%s", err, s1, s2, hist)
	}
	// a second restart on what the first one left behind (it compacts at start-up) must recover the same again
	vAofIdle(inst2.slock.aof)
	inst2.slock.aof.FlushWithLocked()
	d3 := vScratchDir("p3")
	cerr = vCopyDir(d2, d3)
	inst2.vClose(false, true)
	if cerr != nil {
		return info, cerr
	}
	s3, inst3, rerr := pRecover(c, d3)
	if rerr != nil {
		return info, fmt.Errorf("second restart failed: %v\n--- history ---\n%s", rerr, hist)
	}
	inst3.vClose(false, true)
	// deadlines are compared with the original: the outage never renews a hold (allow one more second per restart)
	for n, h := range s2.Holds {
		g := s3.Holds[n]
		if g == nil {
			if h.Deadline-time.Now().Unix() > pMargin+h.Unit {
				return info, fmt.Errorf("second restart: hold %s lost\nafter first restart:\n%safter second:\n%s--- history ---\n%s", n, s2, s3, hist)
			}
			continue
		}
		o := s1.Holds[n]
		if o != nil && o.Deadline < 1<<61 {
			d := g.Deadline - o.Deadline
			if d > o.Unit+2 || d < -(o.Unit+2) {
				return info, fmt.Errorf("second restart: hold %s deadline drifted by %d s from the original", n, d)
			}
		}
		if g.Depth != h.Depth || g.Count != h.Count || g.Rcount != h.Rcount {
			return info, fmt.Errorf("second restart: hold %s changed (depth/count/rcount)\nafter first restart:\n%safter second:\n%s", n, s2, s3)
		}
	}
	for n := range s3.Holds {
		if s2.Holds[n] == nil {
			return info, fmt.Errorf("second restart: hold %s appeared\nafter first restart:\n%safter second:\n%s--- history ---\n%s", n, s2, s3, hist)
		}
	}
	return info, nil
}

func TestC07_Restart(t *testing.T) {
	st := vstat("TestC07_Restart")
	rapid.Check(t, func(t *rapid.T) {
		c := pGenCase(t, "C07")
		n := rapid.IntRange(3, 45).Draw(t, "nOps")
		fresh := 0
		info, err := pC07(c, func(e *aEnv) []aOp {
			if len(c.Ops) >= n {
				return nil
			}
			var ops []aOp
			if rapid.IntRange(0, 99).Draw(t, "rotate") < 6 {
				ops = []aOp{{K: "rotate"}}
			} else {
				ops = aGenOps(t, e, pProfile, &fresh)
			}
			c.Ops = append(c.Ops, ops...)
			return ops
		})
		cls := []string{}
		if info.files >= 2 {
			cls = append(cls, ">=2 log files (append + rewrite)")
		}
		if info.dataFile {
			cls = append(cls, "value blob in a .dat file")
		}
		if info.released {
			cls = append(cls, "a hold was released before the restart")
		}
		if info.expiredOut > 0 {
			cls = append(cls, "persisted hold expired during the outage")
		}
		if info.restored > 0 {
			cls = append(cls, "holds restored")
		}
		st.Case((info.files >= 2 || info.dataFile) && info.released && info.restored > 0, c.fingerprint(), cls, func() interface{} { return c })
		for ; pUpdCreateExcluded > 0; pUpdCreateExcluded-- {
			st.Exclude("update flag removed from a request that creates a hold (known finding " + pKeyUpdCreate + ")")
		}
		for ; pShortUpdExcluded > 0; pShortUpdExcluded-- {
			st.Exclude("re-lock/update of a live hold replaced by a request with a fresh LockId (known findings " + pKeyShortUpd + ", " + pKeyLateDepth + ")")
		}
		if err != nil {
			vFail(t, "TestC07_Restart", "C07:"+aViolKey(strings.SplitN(err.Error(), "\n", 2)[0]), c, "%v", err)
		}
	})
}

func pReplayC07(c *aCase) error {
	i := 0
	_, err := pC07(c, func(e *aEnv) []aOp {
		if i >= len(c.Ops) {
			return nil
		}
		i++
		return c.Ops[i-1 : i]
	})
	return err
}

func TestC07_Replay(t *testing.T) {
	for _, f := range vReplayFiles("C07") {
		var c aCase
		key, err := vLoadReplay(f, &c)
		if err != nil {
			t.Fatalf("cannot load replay %s: %v", f, err)
		}
		c.Prop = "C07"
		rerr := pReplayC07(&c)
		msg := ""
		if rerr != nil {
			msg = strings.SplitN(rerr.Error(), "\n", 2)[0]
		}
		fmt.Printf("VERIF-KF key=%s reproduced=%v file=%s %s\n", key, rerr != nil, f, msg)
	}
}

var _ = filepath.Join

// pDumpDir prints the records of every log file of a directory (debug aid and failure context).
func pDumpDir(dir string) string {
	var sb strings.Builder
	ents, _ := os.ReadDir(dir)
	for _, e := range ents {
		n := e.Name()
		if strings.HasSuffix(n, ".dat") {
			fi, _ := e.Info()
			fmt.Fprintf(&sb, "%s: %d bytes\n", n, fi.Size())
			continue
		}
		b, err := os.ReadFile(filepath.Join(dir, n))
		if err != nil {
			continue
		}
		fmt.Fprintf(&sb, "%s: %d bytes\n", n, len(b))
		for off := 12; off+64 <= len(b); off += 64 {
			l := NewAofLock()
			copy(l.buf, b[off:off+64])
			_ = l.Decode()
			fmt.Fprintf(&sb, "   #%d/%d type=%d flag=%#x db=%d key=%x id=%x aofflag=%#x cmdtime=wall%+d start=%d exp=%d/%#x count=%d rcount=%d\n", l.AofIndex, l.AofOffset, l.CommandType, l.Flag, l.DbId,
				l.LockKey[:2], l.LockId[:3], l.AofFlag, int64(l.CommandTime)-time.Now().Unix(), l.StartTime, l.ExpriedTime, l.ExpriedFlag, l.Count, l.Rcount)
		}
		if (len(b)-12)%64 != 0 && len(b) > 12 {
			fmt.Fprintf(&sb, "   + %d trailing bytes\n", (len(b)-12)%64)
		}
	}
	return sb.String()
}

