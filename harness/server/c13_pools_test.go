package server

// C13, two further case shapes (follow-up 4):
//
//   "pool"       one connection accumulates N resources of one kind (holds on N keys, N holders of one key,
//                N re-entrant holds, N queued requests, N wills) and then gives them back in one of several
//                ways (itself in order / in reverse / partly, by closing, through another connection, in
//                waves). N is drawn around the capacities of the per-connection and per-key containers:
//                freeCommands [64] of every protocol object, the will queue (8+16+32+64 = 120, then appended
//                nodes), the per-key holder list (cap 6, doubling up to 192, then the scale queue), the
//                per-connection locked free queue. All frames are well-formed.
//   "exec-tight" EXECUTE value frames with a property block of P bytes in front of the nested command, whose
//                nested value length is off by -2..P+3 around the number of bytes really present, for every
//                stage (current / unlock / timeout / expried), with the follow-up that makes the stage fire.

import (
	"encoding/hex"
	"fmt"

	"github.com/snower/slock/protocol"
	"pgregory.net/rapid"
)

// sizes around the capacities; ascending, so that shrinking ends at the smallest failing size
var (
	w13PoolMainSizes  = []int{60, 61, 62, 63, 64, 65, 66, 67, 68, 69, 70, 100, 130}
	w13PoolOtherSizes = []int{5, 6, 7, 8, 9, 12, 13, 16, 17, 24, 25, 32, 33, 48, 49, 56, 57, 96, 97, 119, 120, 121, 127, 128, 129, 192, 193, 194, 248, 249, 250}
)

func w13PoolKey(prefix byte, i int) (k [16]byte) {
	k[0], k[1], k[14], k[15] = prefix, 0x13, byte(i>>8), byte(i)
	return
}

// poolFrame: a well-formed LOCK / UNLOCK / WILL_* frame.
func (g *w13Gen) poolFrame(typ byte, flag byte, key, id [16]byte, timeout, tflag, expried, eflag, count uint16, rcount byte, req int) []byte {
	f := w13Frame(typ, byte(req))
	f[4], f[5] = byte(req>>8), byte(req>>16)
	f[19], f[20] = flag, 0
	copy(f[21:37], id[:])
	copy(f[37:53], key[:])
	f[53], f[54], f[55], f[56] = byte(timeout), byte(timeout>>8), byte(tflag), byte(tflag>>8)
	f[57], f[58], f[59], f[60] = byte(expried), byte(expried>>8), byte(eflag), byte(eflag>>8)
	f[61], f[62], f[63] = byte(count), byte(count>>8), rcount
	return f
}

type w13PoolItem struct {
	key, id [16]byte
	tkey    string // text protocol: key and lock id argument
	tid     string
}

func (g *w13Gen) genPoolCase(c *w13Case) []w13Conn {
	n := 0
	if g.pct("poolMainSize", 65) {
		n = rapid.SampledFrom(w13PoolMainSizes).Draw(g.t, "poolSize")
	} else {
		n = rapid.SampledFrom(w13PoolOtherSizes).Draw(g.t, "poolOtherSize")
	}
	kind := rapid.SampledFrom([]string{"holds/keys", "holds/keys", "holds/keys", "holds/ids", "holds/ids", "holds/reentrant", "waiters", "waiters", "wills", "wills", "holds+waiters"}).Draw(g.t, "poolKind")
	release := rapid.SampledFrom([]string{"self", "self", "self", "self-reverse", "self-partial", "close", "other", "waves", "self+more"}).Draw(g.t, "poolRelease")
	text := g.pct("poolText", 20) && (kind == "holds/keys" || kind == "holds/ids" || kind == "wills")
	if g.known.freeList && n >= 64 {
		g.exclude("64 or more commands freed on one connection (known finding: free list of a connection overflows)")
		n = 63
	}
	if kind == "holds/reentrant" && n > 250 {
		n = 250
	}
	holder := g.ids[0]
	shared := w13PoolKey(0xb9, 0)
	items := make([]w13PoolItem, n)
	for i := range items {
		it := &items[i]
		switch kind {
		case "holds/keys", "wills":
			it.key, it.id = w13PoolKey(0xb8, i), g.ids[1]
		case "holds/reentrant":
			it.key, it.id = shared, g.ids[1]
		default: // one key, n lock ids
			it.key, it.id = shared, w13PoolKey(0xc1, i)
		}
		it.tkey, it.tid = fmt.Sprintf("pk%04d", i), "pid"
		if kind == "holds/ids" {
			it.tkey, it.tid = "pshared", fmt.Sprintf("pi%04d", i)
		}
	}
	count := uint16(0)
	rcount := byte(0)
	switch kind {
	case "holds/ids":
		count = uint16(rapid.SampledFrom([]int{n - 1, n - 1, n - 1, n, 0xffff, n - 2, n / 2}).Draw(g.t, "poolCount"))
	case "holds/reentrant":
		rcount = byte(rapid.SampledFrom([]int{0xff, 0xff, n, n - 1}).Draw(g.t, "poolRcount"))
	case "holds+waiters":
		count = uint16(n/2 - 1)
	}
	expried := uint16(rapid.SampledFrom([]int{600, 600, 60, 0x7fff}).Draw(g.t, "poolExpried"))
	waitExpried := uint16(rapid.SampledFrom([]int{0, 0, 600}).Draw(g.t, "poolWaitExpried"))
	// holds that are written to the AOF at once (AOF channel free list / lock queues of aof_queue_size/64 entries)
	eflag := uint16(rapid.SampledFrom([]int{0, 0, 0x0100}).Draw(g.t, "poolExpriedFlag"))
	// queued requests that all time out in the same sweep and lock the reversed key through the shard executor
	waitTimeout, waitFlag, linger := uint16(30), uint16(0), 0
	if (kind == "waiters" || kind == "holds+waiters") && g.pct("poolWaitReverse", 25) {
		waitTimeout, waitFlag, linger = 20, 0x0480, 150
	}
	req := 0
	next := func() int { req++; return req }

	var notes []string
	// acquire phase -------------------------------------------------------------------------------
	acquire := func(round int) (b []byte) {
		switch {
		case text:
			for _, it := range items {
				a := []string{"LOCK", it.tkey, "LOCK_ID", it.tid, "TIMEOUT", "0", "EXPRIED", fmt.Sprint(expried)}
				if kind == "holds/ids" {
					a = append(a, "COUNT", fmt.Sprint(count))
				}
				if kind == "wills" {
					a = append(a, "WILL", "1")
				}
				rb, _ := g.renderPlain(a)
				b = append(b, rb...)
			}
		case kind == "waiters" || kind == "holds+waiters":
			if kind == "waiters" && round == 0 {
				b = append(b, g.poolFrame(protocol.COMMAND_LOCK, 0, shared, holder, 0, 0, 600, 0, 0, 0, next())...)
			}
			for _, it := range items {
				// Timeout 30 s: the request is answered when it is granted, cancelled or the case ends
				b = append(b, g.poolFrame(protocol.COMMAND_LOCK, 0, it.key, it.id, waitTimeout, waitFlag, waitExpried, 0, count, 0, next())...)
			}
		case kind == "wills":
			for i, it := range items {
				typ := byte(protocol.COMMAND_WILL_LOCK)
				if i%3 == 2 {
					typ = protocol.COMMAND_WILL_UNLOCK
				}
				b = append(b, g.poolFrame(typ, 0, it.key, it.id, 0, 0, expried, 0, 0, 0, next())...)
			}
		default:
			for _, it := range items {
				b = append(b, g.poolFrame(protocol.COMMAND_LOCK, 0, it.key, it.id, 0, 0, expried, eflag, count, rcount, next())...)
			}
		}
		return
	}
	// release phase -------------------------------------------------------------------------------
	unlockOf := func(it w13PoolItem, flag byte) []byte {
		if text {
			rb, _ := g.renderPlain([]string{"UNLOCK", it.tkey, "LOCK_ID", it.tid})
			return rb
		}
		return g.poolFrame(protocol.COMMAND_UNLOCK, flag, it.key, it.id, 0, 0, 0, 0, 0, rcount, next())
	}
	releaseAll := func(order string, upTo int) (b []byte) {
		if kind == "wills" && !text {
			return nil // wills run when the connection closes
		}
		waiting := kind == "waiters"
		if waiting && g.pct("poolWaitersGranted", 50) {
			// the holder lets go: the queue is granted one after the other on this goroutine
			b = append(b, g.poolFrame(protocol.COMMAND_UNLOCK, 0, shared, holder, 0, 0, 0, 0, 0, 0, next())...)
			if waitExpried == 0 {
				return
			}
			waiting = false
		}
		flag := byte(0)
		if waiting {
			flag = protocol.UNLOCK_FLAG_CANCEL_WAIT_LOCK_WHEN_UNLOCKED
		}
		for j := 0; j < len(items) && j < upTo; j++ {
			i := j
			if order == "reverse" {
				i = len(items) - 1 - j
			}
			b = append(b, unlockOf(items[i], flag)...)
		}
		return
	}

	var main, second []byte
	main = acquire(0)
	notes = append(notes, fmt.Sprintf("acquire: %d x %s (n=%d count=%d rcount=%d expried=%d)", n, kind, n, count, rcount, expried))
	switch release {
	case "self":
		main = append(main, releaseAll("forward", n)...)
	case "self-reverse":
		main = append(main, releaseAll("reverse", n)...)
	case "self-partial":
		m := rapid.SampledFrom([]int{n - 1, 63, 64, 65, n / 2, n - 2}).Draw(g.t, "poolPartial")
		if m < 0 {
			m = 0
		}
		main = append(main, releaseAll("forward", m)...)
		notes = append(notes, fmt.Sprintf("release: the first %d by the connection itself", m))
	case "close":
	case "other":
		second = releaseAll("forward", n)
	case "waves":
		w := g.n("poolWaves", 2, 3)
		main = append(main, releaseAll("forward", n)...)
		for r := 1; r < w; r++ {
			main = append(main, acquire(r)...)
			main = append(main, releaseAll("forward", n)...)
		}
		notes = append(notes, fmt.Sprintf("%d waves of acquire + release", w))
	case "self+more":
		main = append(main, releaseAll("forward", n)...)
		m := g.n("poolMore", 1, 4)
		for j := 0; j < m && j < len(items); j++ {
			if text {
				rb, _ := g.renderPlain([]string{"LOCK", items[j].tkey, "LOCK_ID", items[j].tid, "TIMEOUT", "0", "EXPRIED", "5"})
				main = append(main, rb...)
			} else {
				main = append(main, g.poolFrame(protocol.COMMAND_LOCK, 0, items[j].key, items[j].id, 0, 0, 5, 0, count, rcount, next())...)
			}
			main = append(main, unlockOf(items[j], 0)...)
		}
	}
	notes = append(notes, "release: "+release)
	kindName := "binary"
	if text {
		kindName = "text"
		pre, _ := g.renderPlain([]string{"TIMEOUT", "SET", "0"})
		main = append(pre, main...)
	}
	conn := w13Conn{Kind: kindName, Hex: hex.EncodeToString(main), Note: notes, Linger: linger}
	if linger > 0 {
		conn.Note = append(conn.Note, "queued requests: Timeout 20 ms, time-out flag 0x0480 (reverse key lock when timed out)")
	}
	if text {
		conn.Chunks = rapid.SampledFrom([][]int{nil, nil, {4096}, {1000}, {37}}).Draw(g.t, "poolTextChunks")
	} else {
		// one frame per read = request / reply lock-step as seen by the server; or batches
		conn.Chunks = rapid.SampledFrom([][]int{{64}, {64}, {64}, nil, {4096}, {128}, {64 * 63}, {64, 64 * 7}, {640}}).Draw(g.t, "poolChunks")
	}
	conns := []w13Conn{conn}
	if len(second) > 0 {
		sc := w13Conn{Kind: kindName, Hex: hex.EncodeToString(second), Note: []string{fmt.Sprintf("release of the %d resources of the first connection by another connection", n)}}
		if !text {
			sc.Chunks = rapid.SampledFrom([][]int{{64}, nil, {4096}}).Draw(g.t, "poolSecondChunks")
		}
		conns = append(conns, sc)
	}
	c.Shape = fmt.Sprintf("pool:%s:%s:%s n=%d", kind, release, kindName, n)
	c.Pool, c.PoolN = kind+" / "+release, n
	return conns
}

// ---------------------------------------------------------------------------------------------
// EXECUTE value frames with a property block and a nested length that is tight around the truth.

var w13ExecProps = map[int][]byte{
	0: {},
	1: {1},
	2: {1, 0},
	3: {1, 0, 0},
	6: {1, 3, 0, 'a', 'b', 'c'},
	9: {1, 3, 0, 'a', 'b', 'c', 2, 0, 0},
}

// genExecTightFrame returns a complete EXECUTE value frame (with length prefix) for the given stage:
// [len32][stage<<6|5][flags|0x10][P16][P bytes][nested 64-byte command with flag 0x20][L32][n bytes], L = n+d.
func (g *w13Gen) genExecTightFrame(stage byte, db byte) (frame []byte, desc string, p, d int) {
	p = rapid.SampledFrom([]int{0, 0, 1, 2, 6, 6, 255, 3, 9}).Draw(g.t, "etProps")
	noProps := g.pct("etNoProps", 8) // control: the nested command directly behind the header
	var props []byte
	if p == 255 {
		props = append([]byte{2, 252, 0}, make([]byte, 252)...)
	} else {
		props = w13ExecProps[p]
	}
	if p <= 9 {
		d = g.n("etDelta", -2, p+3)
	} else {
		d = rapid.SampledFrom([]int{-2, -1, 0, 1, 2, 3, 100, p, p + 1, p + 2, p + 3}).Draw(g.t, "etDeltaBig")
	}
	if d > 0 && g.known.execAlloc {
		g.exclude("EXECUTE frame whose nested value length overstates the bytes present (known finding in DecodeLockCommand)")
		d = 0
	}
	m := rapid.SampledFrom([]int{0, 1, 5, 5, 20}).Draw(g.t, "etNestedPayload")
	nested := g.poolFrame(byte(rapid.SampledFrom([]int{1, 1, 2}).Draw(g.t, "etNestedType")), 0x20, w13PoolKey(0xd1, g.n("etNestedKey", 0, 1)), g.ids[2], 0, 0,
		uint16(rapid.SampledFrom([]int{0, 5}).Draw(g.t, "etNestedExpried")), 0, 0, 0, 0x77)
	nested[20] = db
	nbody := append([]byte{0, 0}, make([]byte, m)...)
	for i := 2; i < len(nbody); i++ {
		nbody[i] = byte('a' + i)
	}
	l := len(nbody) + d
	if l < 0 {
		l = 0
	}
	var lb [4]byte
	w13Put32(lb[:], uint32(l))
	flags := byte(0x10)
	body := []byte{stage<<6 | protocol.LOCK_DATA_COMMAND_TYPE_EXECUTE, flags}
	if noProps {
		body[1], p = 0, -1
	} else {
		body = append(body, byte(len(props)), byte(len(props)>>8))
		body = append(body, props...)
	}
	body = append(body, nested...)
	body = append(body, lb[:]...)
	body = append(body, nbody...)
	frame = make([]byte, 4+len(body))
	w13Put32(frame, uint32(len(body)))
	copy(frame[4:], body)
	if g.pct("etInPipeline", 15) {
		// last sub-frame of a PIPELINE frame
		var pb []byte
		pb = append(pb, protocol.LOCK_DATA_COMMAND_TYPE_PIPELINE, 0)
		if g.pct("etPipelineFirst", 50) {
			pb = append(pb, 5, 0, 0, 0, 0, 0, 'x', 'y', 'z')
		}
		pb = append(pb, frame...)
		frame = make([]byte, 4+len(pb))
		w13Put32(frame, uint32(len(pb)))
		copy(frame[4:], pb)
		desc = "PIPELINE["
	}
	desc += fmt.Sprintf("data[EXECUTE stage=%d props=%dB {nested %s flag=0x20 data declared=%d present=%d (%+d)}]", stage, p, w13BinaryNames[nested[2]], l, len(nbody), d)
	return
}

func (g *w13Gen) genExecTightCase(c *w13Case) []w13Conn {
	stage := byte(rapid.SampledFrom([]int{0, 0, 1, 1, 2, 3, 3}).Draw(g.t, "etStage"))
	key, id, other := g.keys[0], g.ids[0], g.ids[1]
	vf, vd, p, d := g.genExecTightFrame(stage, 0)
	req := 0
	next := func() int { req++; return req }
	var b, second []byte
	var notes []string
	linger := 0
	onUnlock := stage == 0 && g.pct("etOnUnlock", 25)
	switch {
	case onUnlock:
		// the UNLOCK carries the frame
		b = append(b, g.poolFrame(protocol.COMMAND_LOCK, 0, key, id, 0, 0, 600, 0, 0, 0, next())...)
		b = append(b, g.poolFrame(protocol.COMMAND_UNLOCK, 0x20, key, id, 0, 0, 0, 0, 0, 0, next())...)
		b = append(b, vf...)
		notes = append(notes, "LOCK key=focus e=600", "UNLOCK flag=0x20 "+vd)
	case stage == 2:
		// the request queues behind a holder and times out after 20 ms
		b = append(b, g.poolFrame(protocol.COMMAND_LOCK, 0, key, other, 0, 0, 600, 0, 0, 0, next())...)
		b = append(b, g.poolFrame(protocol.COMMAND_LOCK, 0x20, key, id, 20, 0x0400, 600, 0, 0, 0, next())...)
		b = append(b, vf...)
		notes = append(notes, "LOCK key=focus id=other e=600", "LOCK flag=0x20 key=focus t=20ms e=600 "+vd)
		linger = 150
	case stage == 3:
		b = append(b, g.poolFrame(protocol.COMMAND_LOCK, 0x20, key, id, 0, 0, 20, 0x0400, 0, 0, next())...)
		b = append(b, vf...)
		notes = append(notes, "LOCK flag=0x20 key=focus e=20ms "+vd)
		linger = 150
	default:
		b = append(b, g.poolFrame(protocol.COMMAND_LOCK, 0x20, key, id, 0, 0, 600, 0, 0, 0, next())...)
		b = append(b, vf...)
		notes = append(notes, "LOCK flag=0x20 key=focus e=600 "+vd)
		u := g.poolFrame(protocol.COMMAND_UNLOCK, 0, key, id, 0, 0, 0, 0, 0, 0, next())
		switch g.n("etUnlockBy", 0, 3) {
		case 0:
		case 1:
			second = u
		default:
			b = append(b, u...)
			notes = append(notes, "UNLOCK key=focus")
		}
	}
	conn := w13Conn{Kind: "binary", Hex: hex.EncodeToString(b), Note: notes, Linger: linger}
	conn.Chunks = rapid.SampledFrom([][]int{nil, nil, {64}, {64, 4096}, {70, 3}}).Draw(g.t, "etChunks")
	conns := []w13Conn{conn}
	if second != nil {
		conns = append(conns, w13Conn{Kind: "binary", Hex: hex.EncodeToString(second), Note: []string{"UNLOCK key=focus (other connection)"}})
	}
	c.Shape = fmt.Sprintf("exec-tight:stage=%d props=%d delta=%+d", stage, p, d)
	c.ExecStage, c.ExecDelta, c.ExecProps = int(stage)+1, d, p
	return conns
}

// w13PoolClasses: classes of the two shapes.
func w13PoolClasses(c *w13Case, add func(string)) bool {
	switch {
	case c.Pool != "":
		add("shape pool")
		add("pool: " + c.Pool)
		switch {
		case c.PoolN < 60:
			add("pool: n < 60 (other container capacities)")
		case c.PoolN <= 63:
			add("pool: n = 60..63")
		case c.PoolN <= 70:
			add("pool: n = 64..70")
		default:
			add("pool: n > 70")
		}
		if c.PoolN >= 64 {
			add("one connection drives a per-connection pool to or beyond its capacity (n >= 64)")
		}
		return true
	case c.Fanout > 0:
		add("shape fanout")
		add("fanout: " + c.FanKind)
		add(fmt.Sprintf("fanout: capacity %d (aof_queue_size/64)", c.FanCap))
		switch {
		case c.Fanout < c.FanCap:
			add("fanout: n < capacity")
		case c.Fanout == c.FanCap:
			add("fanout: n = capacity")
		default:
			add("one frame fans out into more commands than the shard executor's free list holds (n > aof_queue_size/64)")
		}
		return true
	case c.ExecStage > 0:
		add("shape exec-tight")
		add([]string{"exec-tight: stage current", "exec-tight: stage unlock", "exec-tight: stage timeout", "exec-tight: stage expried"}[c.ExecStage-1])
		switch {
		case c.ExecProps < 0:
			add("exec-tight: no property block (control)")
		case c.ExecDelta <= 0:
			add("exec-tight: nested length exact or short")
		case c.ExecDelta <= c.ExecProps+2:
			add("EXECUTE frame with a property block whose nested length overstates the bytes present by 1..P+2")
		default:
			add("exec-tight: nested length overstated by more than P+2")
		}
		return true
	}
	return false
}

// ---------------------------------------------------------------------------------------------
// shape "fanout": ONE frame whose value frame is a PIPELINE of N sub-frames, N around a capacity that
// depends on the instance configuration: aof_queue_size/64 is the length of the shard executor's task
// free list (LockDBExecutor.freeTasks), of the AOF channel's free list and of the AOF lock queue nodes.
// The case carries its own aof_queue_size (1024 -> 16, 4096 -> 64, 65536 = the default -> 1024), so
// that the capacity is reachable with few sub-frames as well as in the default configuration. Every
// EXECUTE sub-frame of stage "current" queues one command on the executor of the key's shard while the
// connection goroutine holds the shard mutex, so all N tasks exist before the first one runs; staged
// sub-frames (unlock / expried) queue them when the stage fires. All frames are well-formed.

func (g *w13Gen) genFanoutCase(c *w13Case) []w13Conn {
	aofq := rapid.SampledFrom([]int{4096, 4096, 4096, 1024, 1024, 1024, 65536, 2048}).Draw(g.t, "fanAofQueue")
	capacity := aofq / 64
	n := capacity + rapid.SampledFrom([]int{-1, 0, 1, 2, 16, capacity + 1, -capacity / 2}).Draw(g.t, "fanDelta")
	if g.known.execTasks && n > capacity {
		g.exclude("more EXECUTE sub-frames than the executor's free list holds (known finding: free list of the shard executor overflows)")
		n = capacity
	}
	stage := byte(rapid.SampledFrom([]int{0, 0, 0, 0, 1, 1, 3}).Draw(g.t, "fanStage"))
	sub := rapid.SampledFrom([]string{"EXECUTE", "EXECUTE", "EXECUTE", "EXECUTE", "EXECUTE", "EXECUTE", "PUSH"}).Draw(g.t, "fanSub")
	sameKey := g.pct("fanSameKey", 70)
	nestedKind := g.n("fanNested", 0, 2)
	key, id, other := g.keys[0], g.ids[0], g.ids[1]
	pb := []byte{protocol.LOCK_DATA_COMMAND_TYPE_PIPELINE, 0}
	for i := 0; i < n; i++ {
		var body []byte
		if sub == "PUSH" {
			body = []byte{protocol.LOCK_DATA_COMMAND_TYPE_PUSH, 0, byte('a' + i%26), byte('0' + i%10)}
		} else {
			nk := key
			if !sameKey {
				nk = w13PoolKey(0xe1, i)
			}
			var nested []byte
			switch nestedKind {
			case 0: // refused (same key) or granted and released at once (other keys)
				nested = g.poolFrame(protocol.COMMAND_LOCK, 0, nk, other, 0, 0, 0, 0, 0, 0, 0x1000+i)
			case 1:
				nested = g.poolFrame(protocol.COMMAND_UNLOCK, 0, nk, other, 0, 0, 0, 0, 0, 0, 0x1000+i)
			default: // further holders of the key / holds on the other keys
				nested = g.poolFrame(protocol.COMMAND_LOCK, 0, nk, w13PoolKey(0xe2, i), 0, 0, 5, 0, 0xffff, 0, 0x1000+i)
			}
			body = append([]byte{stage<<6 | protocol.LOCK_DATA_COMMAND_TYPE_EXECUTE, 0}, nested...)
		}
		var lb [4]byte
		w13Put32(lb[:], uint32(len(body)))
		pb = append(pb, lb[:]...)
		pb = append(pb, body...)
	}
	vf := make([]byte, 4+len(pb))
	w13Put32(vf, uint32(len(pb)))
	copy(vf[4:], pb)
	expried, eflag, linger := uint16(600), uint16(0), 0
	if stage == 3 {
		expried, eflag, linger = 20, 0x0400, 150
	}
	count := uint16(0)
	if nestedKind == 2 {
		count = 0xffff
	}
	b := g.poolFrame(protocol.COMMAND_LOCK, 0x20, key, id, 0, 0, expried, eflag, count, 0, 1)
	b = append(b, vf...)
	notes := []string{fmt.Sprintf("LOCK flag=0x20 key=focus e=%d/%#x data[PIPELINE %d x %s stage=%d nested=%d sameKey=%v] (%d bytes)", expried, eflag, n, sub, stage, nestedKind, sameKey, len(vf))}
	if stage == 1 || g.pct("fanUnlock", 40) {
		b = append(b, g.poolFrame(protocol.COMMAND_UNLOCK, 0, key, id, 0, 0, 0, 0, 0, 0, 2)...)
		notes = append(notes, "UNLOCK key=focus")
	}
	if g.pct("fanTwice", 15) {
		// the same fan-out once more: the free list is full now
		b = append(b, g.poolFrame(protocol.COMMAND_LOCK, 0x20, key, id, 0, 0, expried, eflag, count, 0, 3)...)
		b = append(b, vf...)
		notes = append(notes, "the same LOCK again")
	}
	conn := w13Conn{Kind: "binary", Hex: hex.EncodeToString(b), Note: notes, Linger: linger}
	conn.Chunks = rapid.SampledFrom([][]int{nil, nil, {64}, {64, 4096}, {4096}, {1000}}).Draw(g.t, "fanChunks")
	c.AofQueue = aofq
	c.Fanout, c.FanCap = n, capacity
	c.FanKind = fmt.Sprintf("%s stage %d", sub, stage)
	c.Shape = fmt.Sprintf("fanout:%s stage=%d n=%d capacity=%d", sub, stage, n, capacity)
	return []w13Conn{conn}
}
