package server

// Shared helpers: in-process slock instances for the harness engines.

import (
	"fmt"
	"os"
	"path/filepath"
	"sync"
	"sync/atomic"
	"time"

	"github.com/hhkbp2/go-logging"
)

type vInstOpts struct {
	DataDir           string
	DBConcurrent      uint
	DBFastKeyCount    uint
	DBLockAofTime     uint
	AofFileBufferSize uint
	AofFileRewriteSize uint
	AofRingBufferSize uint
	AofRingBufferMaxSize uint
	AofAckMode        uint
	SlaveOf           string
	Port              uint
	NoCheckLoop       bool // H1: no wall-clock sweep goroutines, harness owns LockDB.currentTime
}

type vInst struct {
	slock  *SLock
	server *Server
	dir    string
	opts   vInstOpts
}

var vInstSeq uint64
var vInstMu sync.Mutex // instance creation touches package globals (Config, defaultServerProtocol): serialise it
var vNoCheckLoop int32

func init() {
	VerifHook = func(point int) bool {
		if point == verifPointNoCheckLoop {
			return atomic.LoadInt32(&vNoCheckLoop) != 0
		}
		return false
	}
}

func vScratchDir(prefix string) string {
	base := os.Getenv("VERIF_DATADIR")
	if base == "" {
		base = os.TempDir()
	}
	d := filepath.Join(base, fmt.Sprintf("%s-%d-%d", prefix, os.Getpid(), atomic.AddUint64(&vInstSeq, 1)))
	_ = os.MkdirAll(d, 0755)
	return d
}

func vQuietLogger() logging.Logger {
	logger := logging.GetLogger("verif")
	_ = logger.SetLevel(logging.LevelCritical)
	return logger
}

func vConfig(o vInstOpts) *ServerConfig {
	def := func(v, d uint) uint {
		if v == 0 {
			return d
		}
		return v
	}
	return &ServerConfig{
		Bind: "127.0.0.1", Port: def(o.Port, 5658), Log: "-", LogLevel: "ERROR", LogRotatingSize: 67108864, LogBackupCount: 5,
		LogBufferFlushTime: 1, DataDir: o.DataDir, DBFastKeyCount: def(o.DBFastKeyCount, 64), DBConcurrent: def(o.DBConcurrent, 2),
		DBLockAofTime: o.DBLockAofTime, DBLockAofParcentTime: 0.3, AofQueueSize: 4096, AofFileRewriteSize: def(o.AofFileRewriteSize, 67174400),
		AofFileBufferSize: def(o.AofFileBufferSize, 4096), AofRingBufferSize: def(o.AofRingBufferSize, 65536),
		AofRingBufferMaxSize: def(o.AofRingBufferMaxSize, 1048576), AofAckMode: o.AofAckMode, SlaveOf: o.SlaveOf,
	}
}

// vNewInst creates and initialises an instance (leader unless SlaveOf is set).
func vNewInst(o vInstOpts) (*vInst, error) {
	vInstMu.Lock()
	defer vInstMu.Unlock()
	if o.DataDir == "" {
		o.DataDir = vScratchDir("inst")
	}
	if o.NoCheckLoop {
		atomic.StoreInt32(&vNoCheckLoop, 1)
	} else {
		atomic.StoreInt32(&vNoCheckLoop, 0)
	}
	cfg := vConfig(o)
	slock := NewSLock(cfg, vQuietLogger())
	server := NewServer(slock)
	if err := slock.Init(server); err != nil {
		return nil, err
	}
	return &vInst{slock, server, o.DataDir, o}, nil
}

// vClose shuts the instance down through the same steps as SLock.PrepareClose/Close but without
// the one second sleep: instead it waits for every AOF channel goroutine to exit before the AOF file
// is closed (a late record would otherwise re-open a file and start a rewrite goroutine that outlives
// the instance and reads the package-global Config of the next one). A teardown that does not finish
// within a few seconds abandons the instance; it is never a verdict.
func (in *vInst) vClose(wait bool, removeDir bool) {
	done := make(chan struct{})
	go func() {
		defer close(done)
		in.vCloseSteps(wait)
	}()
	select {
	case <-done:
		if removeDir {
			_ = os.RemoveAll(in.dir)
		}
	case <-time.After(5 * time.Second):
		atomic.AddInt64(&vAbandoned, 1)
	}
}

var vAbandoned int64

func (in *vInst) vCloseSteps(wait bool) {
	s := in.slock
	if s.arbiterManager != nil {
		s.arbiterManager.isClosing = true
		_ = s.arbiterManager.Close()
	}
	_ = s.aof.WaitFlushAofChannel()
	s.glock.Lock()
	s.state = STATE_CLOSE
	var channels []*AofChannel
	for _, db := range s.dbs {
		if db != nil {
			channels = append(channels, db.aofChannels...)
			db.status = STATE_CLOSE // LockDB.Close only acts on a DB already marked closed
			db.Close()
		}
	}
	s.glock.Unlock()
	if wait {
		time.Sleep(1100 * time.Millisecond)
	}
	for _, ch := range channels {
		if ch != nil {
			<-ch.closedWaiter
		}
	}
	s.aof.Close()
	s.replicationManager.Close()
	if s.subscribeManager != nil {
		s.subscribeManager.Close()
	}
	s.admin.Close()
	s.glock.Lock()
	for i, db := range s.dbs {
		if db != nil {
			s.dbs[i] = nil
		}
	}
	s.glock.Unlock()
	s.server = nil
}
