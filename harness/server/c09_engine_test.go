package server

// Engine N (DESIGN §4): leader + 1..2 followers in ONE test process, real loopback sockets.
//
// Package globals: NewSLock overwrites `Config` and `defaultServerProtocol`. Every Config field that
// is read after Init (DBConcurrent, DBFastKeyCount, DBLockAofTime, DBLockAofParcentTime, AofQueueSize,
// AofFileBufferSize, AofAckMode) is kept identical across the nodes of a cluster; DataDir, Port,
// SlaveOf, ring sizes and AofFileRewriteSize are copied into the instance while it is initialised
// (vNewInst serialises creation). defaultServerProtocol is only the parking place of request proxies
// whose connection is gone; its slock is used for a client-id lookup at re-attach, which the harness
// never triggers. Listening is done by the harness (Server.Listen reads Config.Port).
//
// The follower's `slaveof` is a fault proxy owned by the harness: it forwards leader<->follower,
// counts the bytes of the leader->follower direction of replication connections (cumulative per
// follower slot), cuts the connection when a drawn offset is reached, can stall that direction, and
// parses the stream just enough to know the phase (file transfer / live) and the ids of live records.

import (
	"bytes"
	"fmt"
	"io"
	"net"
	"os"
	"runtime"
	"path/filepath"
	"sort"
	"strings"
	"sync"
	"sync/atomic"
	"time"

	"github.com/hhkbp2/go-logging"
	"github.com/snower/slock/protocol"
)

// ---------------------------------------------------------------------------------------------
// nodes

type n09Node struct {
	inst   *vInst
	ln     net.Listener
	addr   string
	closed int32
}

// n09NewInst is vNewInst with one difference: the logger is configured once per process. vQuietLogger calls
// SetLevel on the shared logger for every instance; go-logging takes its RWMutex recursively for reading when a
// node logs, so a SetLevel arriving while another node of the cluster is logging deadlocks the process
// (observed: a shard hanging until the 25 min test timeout, and most of the 5 s "teardown abandoned" cases).
var n09LoggerOnce sync.Once
var n09TheLogger logging.Logger

func n09NewInst(o vInstOpts) (*vInst, error) {
	vInstMu.Lock()
	defer vInstMu.Unlock()
	n09LoggerOnce.Do(func() {
		n09TheLogger = logging.GetLogger("verif-n09")
		_ = n09TheLogger.SetLevel(logging.LevelCritical)
	})
	if o.DataDir == "" {
		o.DataDir = vScratchDir("inst")
	}
	if o.NoCheckLoop {
		atomic.StoreInt32(&vNoCheckLoop, 1)
	} else {
		atomic.StoreInt32(&vNoCheckLoop, 0)
	}
	slock := NewSLock(vConfig(o), n09TheLogger)
	server := NewServer(slock)
	if err := slock.Init(server); err != nil {
		return nil, err
	}
	return &vInst{slock, server, o.DataDir, o}, nil
}

func n09StartNode(o vInstOpts, startSync bool) (*n09Node, error) {
	ln, err := net.Listen("tcp", "127.0.0.1:0")
	if err != nil {
		return nil, err
	}
	o.Port = uint(ln.Addr().(*net.TCPAddr).Port)
	inst, err := n09NewInst(o)
	if err != nil {
		_ = ln.Close()
		return nil, err
	}
	n := &n09Node{inst: inst, ln: ln, addr: ln.Addr().String()}
	inst.server.server = ln // what Server.Listen() does
	go func() {
		// the accept loop of Server.Serve without its signal handler and 300 s collectors
		for {
			conn, aerr := ln.Accept()
			if aerr != nil {
				return
			}
			stream := NewStream(conn)
			if inst.server.addStream(stream) != nil {
				_ = stream.Close()
				continue
			}
			go inst.server.handle(stream)
		}
	}()
	if startSync {
		if err = inst.slock.replicationManager.StartSync(); err != nil { // SLock.Start() of a slaveof node
			n.close(false)
			return nil, err
		}
	}
	return n, nil
}

func (n *n09Node) close(removeDir bool) {
	if !atomic.CompareAndSwapInt32(&n.closed, 0, 1) {
		return
	}
	_ = n.ln.Close()
	_ = n.inst.server.CloseStreams()
	n.inst.vClose(false, removeDir)
}

// ---------------------------------------------------------------------------------------------
// fault proxy

const (
	n09PhaseHandshake = 0
	n09PhaseFiles     = 1
	n09PhaseLive      = 2
)

var n09PhaseNames = []string{"handshake", "file-transfer", "live"}

type n09Id struct{ Idx, Off uint32 }

func (a n09Id) less(b n09Id) bool { return a.Idx < b.Idx || (a.Idx == b.Idx && a.Off < b.Off) }
func (a n09Id) String() string    { return fmt.Sprintf("%d/%d", a.Idx, a.Off) }

type n09ProxyEvent struct {
	Conn  int
	What  string
	At    int64
	Phase int
}

type n09Proxy struct {
	ln     net.Listener
	addr   string
	target string

	mu      sync.Mutex
	cond    *sync.Cond
	cuts    []int64
	sent    int64
	stalled bool
	closed  bool
	conns   []net.Conn
	nconn   int
	events  []n09ProxyEvent

	// observations (under mu)
	fullSyncs, resumes, notFound int
	cutsByPhase                  [3]int
	filesRecords, liveRecords    int
	startPending                 bool
	startId                      *n09Id
	lastLive                     *n09Id
	fileJumps                    [][2]n09Id // live stream moved from a to b across files
	wireViolation                string
	forwardConns                 int
	forwardedL2F                 int64
	protectWindow                bool // known finding n09KeySkipAhead: cuts are deferred out of the vulnerable window
	deferredCuts                 int
	pendingSkip                  bool // a full transfer ended before the follower had received a single record
	skipAhead                    int  // ... and the next SYNC was accepted as a resume
	windowOpen                   int  // replication connections currently inside the vulnerable window
	sentTwice                    string
	rewritedInTransfer           int
	maxLive                      *n09Id // highest live record id forwarded to this follower since its last full transfer
	redelivered                  int    // live records forwarded although an earlier connection had already carried them
	gen                          int  // incremented by dropConns: connections of an older generation forward nothing more
	holdSync                     bool // new replication handshakes wait (no transfer may start during a rotation)
	inTransfer                   int  // replication connections between SYNC request and end of file transfer
}

func n09NewProxy(target string, cuts []int64) (*n09Proxy, error) {
	ln, err := net.Listen("tcp", "127.0.0.1:0")
	if err != nil {
		return nil, err
	}
	p := &n09Proxy{ln: ln, addr: ln.Addr().String(), target: target, cuts: append([]int64{}, cuts...)}
	p.cond = sync.NewCond(&p.mu)
	go p.acceptLoop()
	return p, nil
}

func (p *n09Proxy) event(conn int, phase int, format string, a ...interface{}) {
	p.events = append(p.events, n09ProxyEvent{conn, fmt.Sprintf(format, a...), p.sent, phase})
}

func (p *n09Proxy) acceptLoop() {
	for {
		c, err := p.ln.Accept()
		if err != nil {
			return
		}
		go p.serve(c)
	}
}

func (p *n09Proxy) track(c net.Conn) bool {
	p.mu.Lock()
	defer p.mu.Unlock()
	if p.closed {
		_ = c.Close()
		return false
	}
	p.conns = append(p.conns, c)
	return true
}

func (p *n09Proxy) serve(c net.Conn) {
	if !p.track(c) {
		return
	}
	p.mu.Lock()
	target := p.target
	p.mu.Unlock()
	s, err := net.DialTimeout("tcp", target, 2*time.Second)
	if err != nil {
		_ = c.Close()
		return
	}
	if !p.track(s) {
		_ = c.Close()
		return
	}
	// classify by the first frame the follower sends
	first := make([]byte, 64)
	n, err := c.Read(first)
	if err == nil && n < 64 && first[0] == byte(protocol.MAGIC) {
		var m int
		_ = c.SetReadDeadline(time.Now().Add(10 * time.Second))
		m, err = io.ReadFull(c, first[n:])
		_ = c.SetReadDeadline(time.Time{})
		n += m
	}
	isRepl := err == nil && n == 64 && first[0] == byte(protocol.MAGIC) && first[2] == protocol.COMMAND_CALL && strings.HasPrefix(string(first[26:]), "SYNC")
	p.mu.Lock()
	p.nconn++
	id := p.nconn
	if isRepl {
		p.event(id, n09PhaseHandshake, "replication connection opened")
	} else {
		p.forwardConns++
	}
	p.mu.Unlock()
	if !isRepl {
		if n > 0 {
			if _, werr := s.Write(first[:n]); werr != nil {
				_ = c.Close()
				_ = s.Close()
				return
			}
		}
		go func() { _, _ = io.Copy(s, c); _ = s.Close(); _ = c.Close() }()
		buf := make([]byte, 4096)
		for {
			rn, rerr := s.Read(buf)
			if rn > 0 {
				p.mu.Lock()
				p.forwardedL2F += int64(rn)
				p.mu.Unlock()
				if _, werr := c.Write(buf[:rn]); werr != nil {
					break
				}
			}
			if rerr != nil {
				break
			}
		}
		_ = s.Close()
		_ = c.Close()
		return
	}
	rc := &n09ReplConn{p: p, id: id}
	p.mu.Lock()
	for p.holdSync && !p.closed {
		p.cond.Wait()
	}
	p.inTransfer++
	gen := p.gen
	p.mu.Unlock()
	transferDone := false
	endTransfer := func() { // under p.mu
		if !transferDone {
			transferDone = true
			p.inTransfer--
		}
	}
	// follower -> leader: forward untouched, note whether each SYNC asks for a full transfer
	go func() {
		fp := &n09F2LParser{rc: rc}
		fp.feed(first)
		if _, werr := s.Write(first); werr == nil {
			buf := make([]byte, 4096)
			for {
				rn, rerr := c.Read(buf)
				if rn > 0 {
					fp.feed(buf[:rn])
					if _, werr = s.Write(buf[:rn]); werr != nil {
						break
					}
				}
				if rerr != nil {
					break
				}
			}
		}
		_ = s.Close()
		_ = c.Close()
	}()
	// leader -> follower: counted, cut, stalled, parsed
	lp := &n09L2FParser{rc: rc}
	buf := make([]byte, 4096)
	for {
		rn, rerr := s.Read(buf)
		if rn > 0 {
			p.mu.Lock()
			for p.stalled && !p.closed && p.gen == gen {
				p.cond.Wait()
			}
			if p.closed || p.gen != gen { // dropped while it was held back: nothing of it reaches the follower (or the parser)
				p.mu.Unlock()
				break
			}
			data, cut, fwd := buf[:rn], false, 0
			for len(data) > 0 && !cut {
				allowed, hit := len(data), false
				if len(p.cuts) > 0 && p.sent+int64(len(data)) >= p.cuts[0] {
					allowed = int(p.cuts[0] - p.sent)
					if allowed < 0 {
						allowed = 0
					}
					hit = true
				}
				lp.feed(data[:allowed])
				p.sent += int64(allowed)
				fwd += allowed
				data = data[allowed:]
				if hit {
					if p.protectWindow && lp.inWindow() {
						p.cuts[0] = p.sent + 1
						p.deferredCuts++
						continue
					}
					p.cuts = p.cuts[1:]
					cut = true
				}
			}
			if lp.phase == n09PhaseLive {
				endTransfer()
			}
			if cut {
				p.cutsByPhase[lp.phase]++
				p.event(id, lp.phase, "CUT after %d bytes of this chunk (%s, mid-frame=%v)", fwd, n09PhaseNames[lp.phase], lp.midFrame())
			}
			p.mu.Unlock()
			if fwd > 0 {
				if _, werr := c.Write(buf[:fwd]); werr != nil {
					break
				}
			}
			if cut {
				break
			}
		}
		if rerr != nil {
			break
		}
	}
	_ = s.Close()
	_ = c.Close()
	p.mu.Lock()
	endTransfer()
	if lp.inWindow() && id == p.nconn { // only the follower's current connection says anything about its next SYNC
		p.pendingSkip = true
		p.windowOpen--
		p.event(id, lp.phase, "full transfer ended before the follower received a single record")
	}
	lp.closed = true
	p.event(id, lp.phase, "replication connection closed")
	p.mu.Unlock()
}

func (p *n09Proxy) setHoldSync(on bool) {
	p.mu.Lock()
	p.holdSync = on
	p.cond.Broadcast()
	p.mu.Unlock()
}

func (p *n09Proxy) setStall(on bool) {
	p.mu.Lock()
	p.stalled = on
	p.event(0, 0, "stall=%v", on)
	p.cond.Broadcast()
	p.mu.Unlock()
}

// dropConns closes every open connection (a cut that is not tied to a byte offset).
func (p *n09Proxy) dropConns() {
	p.mu.Lock()
	conns := p.conns
	p.conns = nil
	p.gen++
	p.cond.Broadcast()
	p.mu.Unlock()
	for _, c := range conns {
		_ = c.Close()
	}
}

func (p *n09Proxy) close() {
	p.mu.Lock()
	p.closed = true
	conns := p.conns
	p.conns = nil
	p.cond.Broadcast()
	p.mu.Unlock()
	_ = p.ln.Close()
	for _, c := range conns {
		_ = c.Close()
	}
}

func (p *n09Proxy) eventLog() string {
	p.mu.Lock()
	defer p.mu.Unlock()
	var sb strings.Builder
	for i, e := range p.events {
		if i == 60 && len(p.events) > 80 {
			fmt.Fprintf(&sb, "    ... %d more events ...\n", len(p.events)-80)
		}
		if i >= 60 && i < len(p.events)-20 {
			continue
		}
		fmt.Fprintf(&sb, "    [l2f byte %d] conn %d: %s\n", e.At, e.Conn, e.What)
	}
	return sb.String()
}

type n09ReplConn struct {
	p    *n09Proxy
	id   int
	full int32 // last SYNC request carried no id
	req  atomic.Value // string: the position the last SYNC request named (hex, as sent)
}

type n09F2LParser struct {
	rc   *n09ReplConn
	hdr  []byte
	skip int
	body []byte // payload of the SYNC request being skipped (protobuf: 0x0a, length, 32 hex digits)
	want bool
}

func (f *n09F2LParser) feed(b []byte) {
	for len(b) > 0 {
		if f.skip > 0 {
			n := f.skip
			if n > len(b) {
				n = len(b)
			}
			if f.want {
				f.body = append(f.body, b[:n]...)
			}
			f.skip -= n
			b = b[n:]
			if f.skip == 0 && f.want {
				f.want = false
				if len(f.body) > 2 && f.body[0] == 0x0a && int(f.body[1]) <= len(f.body)-2 {
					f.rc.req.Store(string(f.body[2 : 2+int(f.body[1])]))
				}
			}
			continue
		}
		need := 64 - len(f.hdr)
		if need > len(b) {
			need = len(b)
		}
		f.hdr = append(f.hdr, b[:need]...)
		b = b[need:]
		if len(f.hdr) == 64 {
			h := f.hdr
			if h[0] == byte(protocol.MAGIC) && h[2] == protocol.COMMAND_CALL {
				cl := int(uint32(h[22]) | uint32(h[23])<<8 | uint32(h[24])<<16 | uint32(h[25])<<24)
				if cl == 0 {
					atomic.StoreInt32(&f.rc.full, 1)
				} else {
					atomic.StoreInt32(&f.rc.full, 0)
				}
				f.skip = cl
				f.want, f.body = cl > 0 && cl <= 80, f.body[:0]
			}
			f.hdr = f.hdr[:0]
		}
	}
}

type n09L2FParser struct {
	rc       *n09ReplConn
	phase    int
	hdr      []byte
	skip     int
	lenBuf   []byte
	wantLen  bool
	lastLive *n09Id // on this connection
	fullConn bool   // a full transfer was accepted on this connection
	recs     int    // complete records (file or live, payload included) forwarded on this connection
	recPending bool
	maxFile  *n09Id
	closed   bool
}

// inWindow: a full transfer was accepted and not one complete record has reached the follower yet.
// In this window the follower's position already names the transfer's bound (ReplicationClient.InitSync
// sets currentAofId before recvFiles), so a reconnect is answered as a resume from the bound.
func (l *n09L2FParser) inWindow() bool { return l.fullConn && l.recs == 0 && !l.closed }

func (l *n09L2FParser) recordDone() {
	if l.recs == 0 && l.fullConn {
		l.rc.p.windowOpen--
	}
	l.recs++
	l.recPending = false
}

func (l *n09L2FParser) midFrame() bool { return len(l.hdr) > 0 || l.skip > 0 || l.wantLen }

// feed runs under p.mu.
func (l *n09L2FParser) feed(b []byte) {
	p := l.rc.p
	for len(b) > 0 {
		if l.skip > 0 {
			n := l.skip
			if n > len(b) {
				n = len(b)
			}
			l.skip -= n
			b = b[n:]
			if l.skip == 0 && l.recPending {
				l.recordDone()
			}
			continue
		}
		if l.wantLen {
			need := 4 - len(l.lenBuf)
			if need > len(b) {
				need = len(b)
			}
			l.lenBuf = append(l.lenBuf, b[:need]...)
			b = b[need:]
			if len(l.lenBuf) == 4 {
				l.skip = int(uint32(l.lenBuf[0]) | uint32(l.lenBuf[1])<<8 | uint32(l.lenBuf[2])<<16 | uint32(l.lenBuf[3])<<24)
				l.lenBuf = l.lenBuf[:0]
				l.wantLen = false
				if l.skip == 0 && l.recPending {
					l.recordDone()
				}
			}
			continue
		}
		need := 64 - len(l.hdr)
		if need > len(b) {
			need = len(b)
		}
		l.hdr = append(l.hdr, b[:need]...)
		b = b[need:]
		if len(l.hdr) < 64 {
			continue
		}
		h := l.hdr
		l.hdr = l.hdr[:0]
		if h[0] == byte(protocol.MAGIC) && h[1] == byte(protocol.VERSION) && h[2] == protocol.COMMAND_CALL {
			l.skip = int(uint32(h[23]) | uint32(h[24])<<8 | uint32(h[25])<<16 | uint32(h[26])<<24)
			errType := strings.TrimRight(string(h[27:64]), "\x00")
			switch {
			case h[19] == 0 && errType == "":
				if atomic.LoadInt32(&l.rc.full) == 1 {
					l.phase = n09PhaseFiles
					if !l.fullConn {
						l.fullConn = true
						p.windowOpen++
					}
					p.pendingSkip = false
					p.fullSyncs++
					p.maxLive = nil
					p.startPending = true
					p.startId = nil
					p.lastLive = nil
					p.event(l.rc.id, l.phase, "SYNC accepted: full transfer")
				} else {
					l.phase = n09PhaseLive
					p.resumes++
					req, _ := l.rc.req.Load().(string)
					p.event(l.rc.id, l.phase, "SYNC accepted: resume from the follower's id %s", req)
					if p.pendingSkip {
						p.pendingSkip = false
						p.skipAhead++
						p.event(l.rc.id, l.phase, "!! resume accepted although the preceding full transfer delivered nothing")
					}
				}
			case errType == "ERR_NOT_FOUND":
				p.notFound++
				p.event(l.rc.id, l.phase, "SYNC answered ERR_NOT_FOUND (position left the ring)")
			default:
				p.event(l.rc.id, l.phase, "SYNC answered result=%d err=%q", h[19], errType)
			}
			continue
		}
		cmd := h[2]
		off := uint32(h[3]) | uint32(h[4])<<8 | uint32(h[5])<<16 | uint32(h[6])<<24
		idx := uint32(h[7]) | uint32(h[8])<<8 | uint32(h[9])<<16 | uint32(h[10])<<24
		aofFlag := uint16(h[55]) | uint16(h[56])<<8
		if cmd == protocol.COMMAND_INIT && off == 0xffffffff && idx == 0xffffffff {
			p.event(l.rc.id, l.phase, "file transfer finished after %d records", p.filesRecords)
			l.phase = n09PhaseLive
			continue
		}
		if cmd == protocol.COMMAND_QUIT {
			continue
		}
		if aofFlag&AOF_FLAG_CONTAINS_DATA != 0 {
			l.wantLen = true
		}
		if l.wantLen {
			l.recPending = true
		} else {
			l.recordDone()
		}
		if l.phase != n09PhaseLive {
			p.filesRecords++
			if aofFlag&AOF_FLAG_REWRITED != 0 {
				p.rewritedInTransfer++
			}
			fid := n09Id{idx, off}
			if l.maxFile == nil || l.maxFile.less(fid) {
				l.maxFile = &fid
			}
			continue
		}
		p.liveRecords++
		id := n09Id{idx, off}
		if l.maxFile != nil && !l.maxFile.less(id) && p.sentTwice == "" {
			p.sentTwice = fmt.Sprintf("connection %d: record %v was sent with the files (last file record %v) and again on the live stream", l.rc.id, id, *l.maxFile)
			p.event(l.rc.id, l.phase, "!! %s", p.sentTwice)
		}
		if p.startPending {
			p.startPending = false
			p.startId = &id
			p.event(l.rc.id, l.phase, "first live record %v", id)
		} else if p.startId == nil {
			p.startId = &id // a stale directory resumed without a full transfer in this run
		}
		if p.maxLive != nil && !p.maxLive.less(id) {
			if p.redelivered == 0 {
				p.event(l.rc.id, l.phase, "!! live record %v forwarded again (an earlier connection carried the stream up to %v)", id, *p.maxLive)
			}
			p.redelivered++
		} else {
			v := id
			p.maxLive = &v
		}
		if l.lastLive != nil {
			prev := *l.lastLive
			switch {
			case id.Idx == prev.Idx && id.Off == prev.Off+1:
			case id.Idx != prev.Idx && id.Off == 1:
				p.fileJumps = append(p.fileJumps, [2]n09Id{prev, id})
			default:
				if p.wireViolation == "" {
					p.wireViolation = fmt.Sprintf("live stream of connection %d went from record %v to %v", l.rc.id, prev, id)
				}
			}
		}
		l.lastLive = &id
		p.lastLive = &id
	}
}

// ---------------------------------------------------------------------------------------------
// case

type n09Val struct {
	Op string `json:"op"` // set incr append
	B  []byte `json:"b,omitempty"`
	N  int64  `json:"n,omitempty"`
	L  int    `json:"l,omitempty"` // set/append: payload of L bytes derived from (L, N) instead of B (large values)
}

func (v *n09Val) bytes() []byte {
	if v.L <= 0 {
		return append([]byte{}, v.B...)
	}
	b := make([]byte, v.L)
	h := vHash("n09val", v.L, v.N)
	for i := range b {
		b[i] = byte(h >> (8 * uint(i%8)))
		if i%8 == 7 {
			h = h*6364136223846793005 + 1442695040888963407
		}
	}
	return b
}

func (v *n09Val) data() *protocol.LockCommandData {
	switch v.Op {
	case "set":
		return protocol.NewLockCommandDataSetData(v.bytes())
	case "incr":
		return protocol.NewLockCommandDataIncrData(v.N)
	case "append":
		return protocol.NewLockCommandDataAppendData(v.bytes())
	}
	return nil
}

// n09Hex prints long byte strings abbreviated.
func n09Hex(b []byte) string {
	if len(b) <= 40 {
		return fmt.Sprintf("%x", b)
	}
	return fmt.Sprintf("%x..(%d bytes, fnv %x)", b[:16], len(b), vHash(b))
}

type n09Op struct {
	K    string  `json:"k"` // lock unlock rotate restart join stop stall unstall drop sync hold unhold fburst shortlived pause
	N    int     `json:"n,omitempty"` // fburst: records; shortlived: holds; pause: milliseconds
	T    int     `json:"t,omitempty"` // Timeout in seconds (C10 scripts only; the C09 workload never waits)
	F    int     `json:"f,omitempty"`
	Wipe bool    `json:"wipe,omitempty"`
	Db   int     `json:"db,omitempty"`
	Key  int     `json:"key,omitempty"`
	Id   int     `json:"id,omitempty"`
	Flag int     `json:"flag,omitempty"`
	E    int     `json:"e,omitempty"`
	EF   int     `json:"ef,omitempty"`
	Cnt  int     `json:"cnt,omitempty"`
	Rc   int     `json:"rc,omitempty"`
	V    *n09Val `json:"v,omitempty"`
	Cut  bool    `json:"cut,omitempty"` // fburst: the follower's connection is cut right behind the burst, before its log append goes on
}

func (o n09Op) String() string {
	switch o.K {
	case "lock", "unlock", "push":
		s := fmt.Sprintf("%s db%d k%d id%d flag=%#x E=%d/%#x count=%d rcount=%d", o.K, o.Db, o.Key, o.Id, o.Flag, o.E, o.EF, o.Cnt, o.Rc)
		if o.V != nil {
			if o.V.L > 0 {
				s += fmt.Sprintf(" val=%s(%d bytes #%d)", o.V.Op, o.V.L, o.V.N)
			} else {
				s += fmt.Sprintf(" val=%s(%x,%d)", o.V.Op, o.V.B, o.V.N)
			}
		}
		return s
	case "join":
		return fmt.Sprintf("join f%d wipe=%v", o.F, o.Wipe)
	case "stop", "stall", "unstall", "drop":
		return fmt.Sprintf("%s f%d", o.K, o.F)
	case "fburst":
		if o.Cut {
			return fmt.Sprintf("fburst f%d: %d records (lock/unlock of db0 k7 id5) while the follower's log mutex is held, connection cut right behind them", o.F, o.N)
		}
		return fmt.Sprintf("fburst f%d: %d records (lock/unlock of db0 k7 id5) while the follower's log mutex is held", o.F, o.N)
	case "shortlived":
		return fmt.Sprintf("shortlived: %d holds with 1 s expiry and a value (db0 k20.. id6)", o.N)
	case "pause":
		return fmt.Sprintf("pause %d ms", o.N)
	}
	return o.K
}

type n09Case struct {
	Kind      string    `json:"kind"` // "cluster"
	Ring      int       `json:"ring"`
	RingMax   int       `json:"ringmax"`
	Followers int       `json:"followers"`
	Tries     int       `json:"tries,omitempty"`  // replay only: executions to try (races with a narrow window)
	NoLoop    bool      `json:"noloop,omitempty"` // hook H1: no wall-clock sweep goroutines, the harness owns the DB clocks
	FileBuf   int       `json:"filebuf,omitempty"` // aof_file_buffer_size of every node of the case (0: the default, 4096 = 64 records)
	Ops       []n09Op   `json:"ops"`
	Cuts      [][]int64 `json:"cuts"` // per follower: cumulative leader->follower byte offsets of replication traffic
}

func (c *n09Case) fingerprint() uint64 {
	var sb strings.Builder
	for _, o := range c.Ops {
		sb.WriteString(o.String())
		sb.WriteByte(';')
	}
	return vHash(c.Ring, c.RingMax, c.Followers, c.FileBuf, sb.String(), fmt.Sprint(c.Cuts))
}

func n09Key(i int) (k [16]byte) {
	k[0], k[1] = byte(i+1), byte((i+1)>>8)
	k[14], k[15] = 0x09, 0x4b
	return
}

func n09LockId(i int) (k [16]byte) {
	k[0], k[1] = byte(i+1), byte((i+1)>>8)
	k[14], k[15] = 0x09, 0x1d
	return
}

type n09Info struct {
	cutsFiles, cutsLive, cutsHandshake int
	fullSyncs, resumes, notFound       int
	ringDup                            uint32
	ringOverflow                       bool
	records                            int
	rotations                          int
	staleJoins, wipeJoins              int
	syncs                              int
	valueRecords                       int
	abandoned                          int64
	maxHolds                           int
	excludedCreateByUpdate             int
	skipAhead, deferredCuts            int
	knownDupFlush                      int
	knownCompactedLog                  int
	knownLeftOver                      int
	leaderRestarts                     int
	holds, bigValues                   int
	followerBursts, shortLived, pauses int
	smallFileBuf                       bool
	burstCuts, burstCutsExact          int // fburst with a cut behind it; of those: burst = a whole number of file buffers
	excludedEmptyRotation              int
	excludedEmptyRingJoin              int
	excludedRotationOverlap            int
}

type n09Out struct {
	leaderSnap   map[string]*n09KeyState // filled when the state oracle failed
	followerSnap map[string]*n09KeyState
	discarded    string
	err          error
	key          string
	inconclusive string
	info         n09Info
}

type n09Slot struct {
	proxy  *n09Proxy
	dir    string
	node   *n09Node
	joined int
	stall  bool
	tainted bool // its directory showed the double-flush signature
	fullSyncsAtJoin int
	compactedInput string // why this follower's state rests on a compacted log ("" = it does not)
}

type n09Env struct {
	lastLeaderSnap, lastFollowerSnap map[string]*n09KeyState
	c        *n09Case
	leader   *n09Node
	client   *MemWaiterServerProtocol
	slots    []*n09Slot
	log      []string
	reqSeq   int
	truth    map[uint32][]n09Rec // leader's complete log by file index
	finalOff map[uint32]uint32
	info     n09Info
	noCreateByUpdate bool
	harnessTainted   string
	held             []*ReplicationServer
	awaitFirstLive   *n09Slot
	awaitLiveBase, awaitFilesBase int
	stopNudge chan struct{}
	nudgeDone chan struct{}
	mu       sync.Mutex
}

const n09Watchdog = 20 * time.Second

func (e *n09Env) logf(format string, a ...interface{}) {
	e.log = append(e.log, fmt.Sprintf(format, a...))
}

func (e *n09Env) report() string {
	var sb strings.Builder
	fmt.Fprintf(&sb, "cluster: ring=%d ringmax=%d followers=%d filebuf=%d cuts=%v\n", e.c.Ring, e.c.RingMax, e.c.Followers, e.c.FileBuf, e.c.Cuts)
	sb.WriteString("  workload as executed:\n")
	for _, l := range e.log {
		sb.WriteString("    " + l + "\n")
	}
	for i, s := range e.slots {
		fmt.Fprintf(&sb, "  proxy of follower %d:\n%s", i, s.proxy.eventLog())
	}
	return sb.String()
}

func n09InstOpts(c *n09Case) vInstOpts {
	return vInstOpts{DBConcurrent: 2, DBFastKeyCount: 64, AofRingBufferSize: uint(c.Ring), AofRingBufferMaxSize: uint(c.RingMax), NoCheckLoop: c.NoLoop,
		AofFileBufferSize: uint(c.FileBuf)}
}

func n09NewEnv(c *n09Case) (*n09Env, error) {
	e := &n09Env{c: c, truth: map[uint32][]n09Rec{}, finalOff: map[uint32]uint32{}, noCreateByUpdate: n09Known(n09KeyCompaction)}
	o := n09InstOpts(c)
	o.DataDir = vScratchDir("n09-leader")
	leader, err := n09StartNode(o, false)
	if err != nil {
		return nil, err
	}
	e.leader = leader
	e.newLeaderClient()
	for i := 0; i < c.Followers; i++ {
		var cuts []int64
		if i < len(c.Cuts) {
			cuts = c.Cuts[i]
		}
		p, perr := n09NewProxy(leader.addr, cuts)
		if perr != nil {
			e.close()
			return nil, perr
		}
		p.protectWindow = n09Known(n09KeySkipAhead)
		e.slots = append(e.slots, &n09Slot{proxy: p, dir: vScratchDir(fmt.Sprintf("n09-f%d", i))})
	}
	e.stopNudge, e.nudgeDone = make(chan struct{}), make(chan struct{})
	go e.nudger()
	return e, nil
}

// nudger shortens ReplicationClient.sleepWhenRetryConnect (5 s) through the product's own
// WakeupRetryConnect; nothing else is touched.
func (e *n09Env) nudger() {
	defer close(e.nudgeDone)
	t := time.NewTicker(3 * time.Millisecond)
	defer t.Stop()
	for {
		select {
		case <-e.stopNudge:
			return
		case <-t.C:
			e.mu.Lock()
			for _, s := range e.slots {
				if s.node != nil {
					if cc := s.node.inst.slock.replicationManager.clientChannel; cc != nil {
						_ = cc.WakeupRetryConnect()
					}
				}
			}
			e.mu.Unlock()
		}
	}
}

func (e *n09Env) close() {
	e.unholdSenders()
	if e.stopNudge != nil {
		close(e.stopNudge)
		<-e.nudgeDone
	}
	before := atomic.LoadInt64(&vAbandoned)
	for _, s := range e.slots {
		s.proxy.close()
	}
	for _, s := range e.slots {
		if s.node != nil {
			s.node.close(true)
		}
		_ = os.RemoveAll(s.dir)
	}
	if e.client != nil {
		_ = e.client.Close()
	}
	if e.leader != nil {
		mgr := e.leader.inst.slock.replicationManager
		for i := 0; i < 1000; i++ {
			mgr.glock.Lock()
			n := len(mgr.serverChannels)
			mgr.glock.Unlock()
			if n == 0 {
				break
			}
			time.Sleep(2 * time.Millisecond)
		}
		e.leader.close(true)
	}
	e.info.abandoned = atomic.LoadInt64(&vAbandoned) - before
}

// n09Known: exclusions / suppressions for listed findings are active in the property, never in a replay.
// In a replay the exclusion / suppression of the replayed file's own key is off (the finding has to show);
// the other listed keys stay excluded so that the case exhibits that finding and not a neighbour.
// n09ReplayMode without a key (C10 replays) switches all of them off.
var n09ReplayMode bool
var n09ReplayKey string

func n09Known(key string) bool {
	if n09ReplayMode && (n09ReplayKey == "" || n09SameFinding(n09ReplayKey, key)) {
		return false
	}
	return vIsKnown(key)
}

// n09SameFinding: the hold lost to the compaction is reported under the general compacted-log signature.
func n09SameFinding(fileKey, observed string) bool {
	return fileKey == observed || (fileKey == n09KeyCompaction && observed == n09KeyCompactedLog)
}

const n09KeyCompactedLog = "C09:leader-compacted-log-does-not-reproduce-leader-state"
const n09KeyLeftOver = "C09:reconnect-overtakes-the-old-connection-pipelines"
const n09KeyTransferVsCompaction = "C09:file-transfer-concurrent-with-compaction-misses-history"
const n09KeyFirstTwice = "C09:first-record-delivered-twice-when-sync-races-with-empty-ring"
const n09KeyWedged = "C09:follower-wedged-by-append-file-index-hole"
const n09KeySkipAhead = "C09:aborted-full-transfer-resumes-at-bound-skipping-history"
const n09KeyCompaction = "C09:full-transfer-after-compaction-loses-hold-created-by-update-request"

// holds reports whether the leader currently has a hold of (db, key, id).
func (e *n09Env) holds(op n09Op) bool {
	db := e.leader.inst.slock.dbs[op.Db]
	if db == nil {
		return false
	}
	key, id := n09Key(op.Key), n09LockId(op.Id)
	for _, k := range aSnapshot(op.Db, db) {
		if k.Key == key {
			for _, h := range k.Holders {
				if h.Id == id {
					return true
				}
			}
		}
	}
	return false
}

func (e *n09Env) send(op n09Op) {
	if op.K == "lock" && op.Flag&0x02 != 0 && e.noCreateByUpdate && !e.holds(op) {
		// known finding: the compaction keeps only the last update record of a hold that was created by a
		// request carrying the update flag; replayed alone that record is a fresh request under the
		// updated terms and may not be admitted. Excluded: no hold is created by an update request.
		op.Flag &^= 0x02
		e.info.excludedCreateByUpdate++
		e.logf("    (update flag dropped: id%d is not a holder - known finding %s)", op.Id, n09KeyCompaction)
	}
	p := e.client
	cmd := p.GetLockCommand()
	cmd.Magic, cmd.Version = protocol.MAGIC, protocol.VERSION
	cmd.CommandType = protocol.COMMAND_LOCK
	if op.K == "unlock" {
		cmd.CommandType = protocol.COMMAND_UNLOCK
	}
	e.reqSeq++
	cmd.RequestId = aReqId(e.reqSeq)
	cmd.Flag = uint8(op.Flag)
	cmd.DbId = uint8(op.Db)
	cmd.LockId, cmd.LockKey = n09LockId(op.Id), n09Key(op.Key)
	cmd.TimeoutFlag, cmd.Timeout = 0, uint16(op.T)
	cmd.ExpriedFlag, cmd.Expried = uint16(op.EF), uint16(op.E)
	cmd.Count, cmd.Rcount = uint16(op.Cnt), uint8(op.Rc)
	cmd.Data = nil
	if op.V != nil {
		cmd.Data = op.V.data()
		cmd.Flag |= 0x20
	}
	_ = p.ProcessLockCommand(cmd)
	if e.awaitFirstLive != nil {
		// known finding (second half): a cursor that was never positioned starts at the ring's oldest record whenever
		// it first pops; with a ring of two records anything logged meanwhile is skipped. Excluded: after a follower
		// joined an empty leader the workload waits until the first logged record has reached it.
		n09Drain(e.leader.inst.slock.aof)
		if e.leader.inst.slock.replicationManager.bufferQueue.seq > 0 {
			px := e.awaitFirstLive.proxy
			for i := 0; i < 1000; i++ {
				px.mu.Lock()
				got := px.liveRecords > e.awaitLiveBase || px.filesRecords > e.awaitFilesBase
				px.mu.Unlock()
				if got || e.awaitFirstLive.node == nil {
					break
				}
				time.Sleep(2 * time.Millisecond)
			}
			e.awaitFirstLive = nil
		}
	}
}

func (e *n09Env) newLeaderClient() {
	e.client = NewMemWaiterServerProtocol(e.leader.inst.slock)
	_ = e.client.SetResultCallback(func(_ *MemWaiterServerProtocol, cmd *protocol.LockCommand, result uint8, lcount uint16, lrcount uint8, data []byte) error {
		e.logf("    <- %s lcount=%d lrcount=%d data=%s", aResultName(result), lcount, lrcount, n09Hex(data))
		return nil
	})
}

// restartLeader stops the leader and starts a fresh instance on the same directory (as engine P does): the
// ring is empty afterwards, the position is the last record of the log. Followers are stopped first (their
// directories stay: a later join is a stale rejoin, or an empty one if the join says wipe) and reach the new
// leader through their proxies. From here on "the leader's state" is what the restart recovered.
func (e *n09Env) restartLeader() string {
	for i := range e.slots {
		e.stop(i)
	}
	old := e.leader
	aof := old.inst.slock.aof
	n09Drain(aof)
	_ = aof.WaitRewriteAofFiles()
	aof.FlushWithLocked()
	if err := e.collectTruth(); err != nil {
		return "cannot read the leader's files before the restart: " + err.Error()
	}
	dir := old.inst.dir
	_ = e.client.Close()
	before := atomic.LoadInt64(&vAbandoned)
	old.close(false)
	if atomic.LoadInt64(&vAbandoned) != before {
		e.harnessTainted = "teardown of the leader was abandoned before its restart"
	}
	o := n09InstOpts(e.c)
	o.DataDir = dir
	leader, err := n09StartNode(o, false)
	if err != nil {
		return "leader restart failed: " + err.Error()
	}
	e.leader = leader
	e.newLeaderClient()
	for _, s := range e.slots {
		s.proxy.mu.Lock()
		s.proxy.target = leader.addr
		s.proxy.mu.Unlock()
	}
	_ = leader.inst.slock.aof.WaitRewriteAofFiles() // the compaction LoadAndInit starts
	n09Drain(leader.inst.slock.aof)
	e.info.leaderRestarts++
	mgr := leader.inst.slock.replicationManager
	e.logf("    (leader restarted: position %s, ring seq %d)", FormatAofId(mgr.currentAofId), mgr.bufferQueue.seq)
	return ""
}

// holdSenders takes the write mutex of every replication channel of the leader - what a socket write that blocks for a
// moment does: SendProcess stops in front of its next write while the ring keeps filling, and on unholdSenders it pops
// the whole burst in one go (one batch). Held only across a few lock/unlock operations.
// n09KeyStateSwitchDeadlock: SLock.updateState takes every manager mutex of a LockDB in index order with
// LowPriorityLock and keeps those it has; LowPriorityLock waits while the mutex carries the low-priority mark. The
// mark is set by an AofChannel whose queue is longer than 2*aof_queue_size/64 records (back-pressure) and taken
// off again when the queue has drained - but draining means LockDB.Lock, which needs the manager mutex of the KEY's
// lock manager (handed out round-robin), not the channel's (chosen by key hash). updateState holding mutex 0 and
// waiting for the mark on mutex 1, the channel of mutex 1 needing mutex 0: nobody moves. Reached when a follower has
// loaded / been sent more than that many records for one channel right before clientSycnInited.
const n09KeyStateSwitchDeadlock = "C09:follower-state-switch-deadlocks-against-load-channel-backpressure"

func n09StateSwitchHangs(sl *SLock) bool {
	for i := 0; i < 15; i++ {
		if sl.glock.TryLock() {
			sl.glock.Unlock()
			return false
		}
		time.Sleep(100 * time.Millisecond)
	}
	return true
}

// n09Stacks: the goroutines whose stack mentions one of the given function names (diagnosis only).
func n09Stacks(names ...string) string {
	buf := make([]byte, 1<<20)
	buf = buf[:runtime.Stack(buf, true)]
	out := ""
	for _, g := range strings.Split(string(buf), "\n\n") {
		for _, n := range names {
			if strings.Contains(g, n) {
				lines := strings.Split(g, "\n")
				short := []string{}
				for _, l := range lines {
					if !strings.HasPrefix(l, "\t") && len(short) < 7 {
						short = append(short, l)
					}
				}
				out += "\n      " + strings.Join(short, " < ")
				break
			}
		}
	}
	return out
}

func (e *n09Env) holdSenders() {
	if e.held != nil {
		return
	}
	mgr := e.leader.inst.slock.replicationManager
	mgr.glock.Lock()
	chans := append([]*ReplicationServer{}, mgr.serverChannels...)
	mgr.glock.Unlock()
	for _, ch := range chans {
		ch.glock.Lock()
	}
	e.held = chans
	if e.held == nil {
		e.held = []*ReplicationServer{}
	}
	e.info.holds++
}

func (e *n09Env) unholdSenders() {
	for _, ch := range e.held {
		ch.glock.Unlock()
	}
	e.held = nil
}

// followerBurst: the follower's log append (ReplicationClient.ProcessAofAppend, everything under Aof.aofGlock) is
// made slow for a moment - the harness holds that mutex, as a slow disk flush would - while the leader logs n
// records; the follower's receiver runs ahead of its append pipeline as far as the product lets it.
func (e *n09Env) followerBurst(op n09Op) {
	var aof *Aof
	var cc *ReplicationClient
	if op.F < len(e.slots) && e.slots[op.F].node != nil {
		aof = e.slots[op.F].node.inst.slock.aof
		cc = e.slots[op.F].node.inst.slock.replicationManager.clientChannel
		if op.Cut {
			// the follower's append goroutine flushes its file buffer 200 ms after its last record: the burst starts
			// on an empty buffer
			time.Sleep(260 * time.Millisecond)
		}
		aof.aofGlock.Lock()
	}
	for i := 0; i < op.N; i++ {
		if i%2 == 0 {
			e.sendQuiet(n09Op{K: "lock", Key: 7, Id: 5, E: 300, EF: 0x0100})
		} else {
			e.sendQuiet(n09Op{K: "unlock", Key: 7, Id: 5})
		}
	}
	n09Drain(e.leader.inst.slock.aof)
	if aof != nil {
		// let the receiver get as far as it can, then let the log append go on
		last, same := uint64(0), 0
		for i := 0; i < 250 && same < 10 && cc != nil; i++ {
			time.Sleep(2 * time.Millisecond)
			if r := cc.state.recvCount; r == last {
				same++
			} else {
				last, same = r, 0
			}
		}
		if op.Cut {
			// the connection dies right behind the burst: the follower's receiver ends the connection while every
			// record of the burst is still queued for the log append - no idle moment in between
			e.slots[op.F].proxy.dropConns()
			e.log = append(e.log, fmt.Sprintf("  (connection of follower %d cut behind the burst)", op.F))
			e.info.burstCuts++
			per := 64
			if e.c.FileBuf >= 64 {
				per = e.c.FileBuf / 64
			}
			if op.N%per == 0 {
				e.info.burstCutsExact++
			}
			time.Sleep(5 * time.Millisecond)
		}
		aof.aofGlock.Unlock()
	}
	if op.Cut {
		return
	}
	e.info.followerBursts++
}

func (e *n09Env) sendQuiet(op n09Op) {
	n := len(e.log)
	e.send(op)
	e.log = e.log[:n] // hundreds of identical lines say nothing
}

// shortLived: op.N holds that expire after one second, each with a value - records the expiry filter of
// Aof.LoadAofFile will skip once they are dead (file transfer to a joining follower, a follower's own restart).
func (e *n09Env) shortLived(op n09Op) {
	for i := 0; i < op.N; i++ {
		v := &n09Val{Op: "set", B: []byte{0xe0 + byte(i), 0x5e}}
		if i%2 == 1 {
			v = &n09Val{Op: "set", L: 4500 + i, N: int64(i)}
		}
		e.send(n09Op{K: "lock", Key: 20 + i, Id: 6, E: 1, EF: 0x0100, V: v})
	}
	e.info.shortLived += op.N
}

// rotate is Admin.commandHandleRewriteAofCommand; before the switch the harness copies the file
// that is being closed (the background compaction deletes it).
func (e *n09Env) rotate() {
	if n09Known(n09KeyTransferVsCompaction) {
		// known finding: ReplicationServer.sendFiles lists and reads the directory while Aof.rewriteAofFiles is
		// replacing its files (isRewriting is only set inside the goroutine, the replacement is remove-then-
		// rename): the transfer is aborted or silently incomplete. Excluded: no transfer overlaps a rotation -
		// new handshakes are held back by the proxy and transfers in progress are allowed to finish first.
		for _, s := range e.slots {
			s.proxy.setHoldSync(true)
		}
		defer func() {
			for _, s := range e.slots {
				s.proxy.setHoldSync(false)
			}
		}()
		for i := 0; i < 1500; i++ {
			busy := 0
			for _, s := range e.slots {
				s.proxy.mu.Lock()
				if !s.proxy.stalled {
					busy += s.proxy.inTransfer
				}
				s.proxy.mu.Unlock()
			}
			if busy == 0 {
				break
			}
			time.Sleep(2 * time.Millisecond)
		}
		e.info.excludedRotationOverlap++
	}
	if n09Known(n09KeySkipAhead) {
		// known finding: a transfer that the leader aborts (its compaction deletes a file sendFiles is about to
		// read) before the first record leaves the follower at the bound. Excluded as far as the harness can:
		// no rotation while a follower is inside that window.
		for i := 0; i < 1000; i++ {
			open := 0
			for _, s := range e.slots {
				s.proxy.mu.Lock()
				open += s.proxy.windowOpen
				s.proxy.mu.Unlock()
			}
			if open == 0 {
				break
			}
			time.Sleep(2 * time.Millisecond)
		}
	}
	aof := e.leader.inst.slock.aof
	n09Drain(aof)
	aof.glock.Lock()
	busy := aof.isRewriting || aof.isWaitRewite
	aof.glock.Unlock()
	if busy {
		e.logf("    (rotation skipped: already rewriting)")
		return
	}
	aof.aofGlock.Lock()
	if aof.aofFile == nil {
		aof.aofGlock.Unlock()
		e.logf("    (rotation skipped: no open file)")
		return
	}
	if n09Known(n09KeyWedged) && aof.aofFileOffset == 0 && aof.aofFileIndex > 1 {
		// known finding: an append file that stays empty on the leader is never created on a streaming
		// follower, whose directory then has an index hole. Excluded: no rotation of an empty file.
		aof.aofGlock.Unlock()
		e.info.excludedEmptyRotation++
		e.logf("    (rotation skipped: current file is empty - known finding %s)", n09KeyWedged)
		return
	}
	aof.Flush()
	idx := aof.aofFileIndex
	recs, perr := n09ParseAofFile(filepath.Join(aof.dataDir, fmt.Sprintf("append.aof.%d", idx)))
	e.truth[idx] = recs
	e.finalOff[idx] = aof.aofFileOffset
	err := aof.RewriteAofFile(true)
	aof.aofGlock.Unlock()
	_ = aof.WaitRewriteAofFiles()
	e.info.rotations++
	e.logf("    (append.aof.%d closed with %d records, parse err %v, rewrite err %v)", idx, len(recs), perr, err)
}

func (e *n09Env) join(op n09Op) error {
	s := e.slots[op.F]
	if s.node != nil {
		return nil
	}
	if op.Wipe {
		_ = os.RemoveAll(s.dir)
		_ = os.MkdirAll(s.dir, 0755)
		if s.joined > 0 {
			e.info.wipeJoins++
		}
		s.proxy.mu.Lock()
		s.proxy.startId, s.proxy.startPending, s.proxy.lastLive = nil, false, nil
		s.proxy.rewritedInTransfer = 0
		s.proxy.maxLive = nil
		s.proxy.mu.Unlock()
		s.compactedInput = ""
	} else if s.joined > 0 {
		e.info.staleJoins++
		if _, serr := os.Stat(filepath.Join(s.dir, "rewrite.aof")); serr == nil {
			s.compactedInput = "restarted from its own directory, which holds a rewrite.aof"
		}
	}
	s.proxy.mu.Lock()
	s.fullSyncsAtJoin = s.proxy.fullSyncs
	s.proxy.pendingSkip = false // a new incarnation takes its position from its files
	s.proxy.mu.Unlock()
	if n09Known(n09KeyFirstTwice) {
		n09Drain(e.leader.inst.slock.aof) // nothing of the workload so far is still on its way into the ring
	}
	o := n09InstOpts(e.c)
	o.DataDir = s.dir
	o.SlaveOf = s.proxy.addr
	node, err := n09StartNode(o, true)
	if err != nil {
		return err
	}
	e.mu.Lock()
	s.node = node
	e.mu.Unlock()
	s.joined++
	if n09Known(n09KeyFirstTwice) && e.leader.inst.slock.replicationManager.bufferQueue.seq == 0 {
		// known finding: with an empty ring handleInitSync computes the transfer bound from Aof.aofFileOffset
		// without a lock; a record logged at that moment is sent with the files and again live. Excluded: while
		// the leader has not logged anything yet the workload waits for the handshake to finish.
		e.info.excludedEmptyRingJoin++
		s.proxy.mu.Lock()
		e.awaitFirstLive, e.awaitLiveBase, e.awaitFilesBase = s, s.proxy.liveRecords, s.proxy.filesRecords
		s.proxy.mu.Unlock()
		for i := 0; i < 1000; i++ {
			s.proxy.mu.Lock()
			done := s.proxy.fullSyncs+s.proxy.resumes > 0
			s.proxy.mu.Unlock()
			mgr := e.leader.inst.slock.replicationManager
			mgr.glock.Lock()
			done = done && len(mgr.serverChannels) > 0
			mgr.glock.Unlock()
			if done {
				break
			}
			time.Sleep(2 * time.Millisecond)
		}
	}
	return nil
}

func (e *n09Env) stop(f int) {
	s := e.slots[f]
	if s.node == nil {
		return
	}
	e.mu.Lock()
	node := s.node
	s.node = nil
	e.mu.Unlock()
	// stop the replication client first and make sure it is gone: a follower whose teardown is abandoned
	// must not keep writing into a directory that the next incarnation is going to use
	mgr := node.inst.slock.replicationManager
	if cc := mgr.clientChannel; cc != nil {
		_ = cc.Close()
		s.proxy.dropConns()
		select {
		case <-cc.closedWaiter:
		case <-time.After(3 * time.Second):
			e.harnessTainted = "replication client of a stopped follower did not terminate"
		}
	}
	s.proxy.dropConns()
	before := atomic.LoadInt64(&vAbandoned)
	node.close(false)
	if atomic.LoadInt64(&vAbandoned) != before {
		e.harnessTainted = "teardown of a stopped follower was abandoned: its directory may still be written to"
	}
}

// ---------------------------------------------------------------------------------------------
// quiescence + oracle

// n09Drain waits until every AOF channel of the instance is idle with an empty queue.
// Aof.WaitFlushAofChannel alone is not a barrier: when one channel goes idle while another one has a
// record queued but has not woken up yet (active count 0 -> the waiter is closed), it returns early
// (observed: the leader's last id moved after it had returned). So it is repeated until a direct look
// at the channels agrees.
func n09Drain(aof *Aof) {
	for i := 0; i < 20000; i++ {
		_ = aof.WaitFlushAofChannel()
		idle := atomic.LoadUint32(&aof.channelActiveCount) == 0
		if idle {
			aof.glock.Lock()
			channels := aof.channels
			aof.glock.Unlock()
			for _, ch := range channels {
				ch.queueGlock.Lock()
				if ch.queueCount != 0 || !ch.queuePulled {
					idle = false
				}
				ch.queueGlock.Unlock()
			}
		}
		if idle {
			return
		}
		time.Sleep(200 * time.Microsecond)
	}
}

func (e *n09Env) leaderTarget() ([16]byte, uint64) {
	aof := e.leader.inst.slock.aof
	n09Drain(aof)
	aof.FlushWithLocked()
	aof.replGlock.Lock()
	mgr := e.leader.inst.slock.replicationManager
	id, seq := mgr.currentAofId, mgr.bufferQueue.seq
	aof.replGlock.Unlock()
	if os.Getenv("N09_DEBUG") != "" {
		time.Sleep(50 * time.Millisecond)
		if mgr.currentAofId != id {
			act := atomic.LoadUint32(&aof.channelActiveCount)
			fmt.Printf("N09-DEBUG leader id moved after WaitFlushAofChannel: %s -> %s (active %d)\n", FormatAofId(id), FormatAofId(mgr.currentAofId), act)
		}
	}
	return id, seq
}

// waitCaughtUp polls until the follower's durable position equals the leader's last id and all three
// follower pipelines have drained. Returns "" or the reason it is inconclusive.
func (e *n09Env) waitCaughtUp(f int, target [16]byte) string {
	s := e.slots[f]
	deadline := time.Now().Add(n09Watchdog)
	var last string
	var holeSince time.Time
	var holeConnects uint64
	polls, stuck := 0, 0
	for {
		sl := s.node.inst.slock
		cc := sl.replicationManager.clientChannel
		if cc != nil {
			st := cc.state
			if cc.currentAofId == target && cc.recvedFiles && st.replayCount == st.recvCount && st.appendCount == st.recvCount && st.pushCount == st.recvCount {
				n09Drain(sl.aof)
				if cc.currentAofId == target {
					return ""
				}
			}
			last = fmt.Sprintf("follower %d at %s (recv %d replay %d append %d, connects %d, state %d), leader at %s", f, FormatAofId(cc.currentAofId), st.recvCount, st.replayCount, st.appendCount, st.connectCount, sl.state, FormatAofId(target))
		} else {
			last = fmt.Sprintf("follower %d has no replication client", f)
		}
		polls++
		if polls%250 == 0 && cc != nil && time.Since(deadline.Add(-n09Watchdog)) > 3*time.Second {
			// not slow but stuck: the leader's cursor for this follower stands at the end of the ring (nothing left to
			// send), the follower's pipelines are drained, and yet the follower's position is not the leader's
			mgr := e.leader.inst.slock.replicationManager
			mgr.glock.Lock()
			chans := append([]*ReplicationServer{}, mgr.serverChannels...)
			mgr.glock.Unlock()
			st := cc.state
			if len(chans) > 0 && st.replayCount == st.recvCount && st.appendCount == st.recvCount && cc.currentAofId != target {
				atEnd := true
				for _, ch := range chans {
					if ch.bufferCursor.seq+1 != mgr.bufferQueue.seq || !ch.bufferCursor.writed {
						atEnd = false
					}
				}
				if atEnd {
					stuck++
					if stuck >= 3 {
						// is the follower's state switch (ReplicationManager.clientSycnInited -> SLock.updateState, which
						// holds SLock.glock for its whole duration) hanging? Then this is no gap in the stream: the
						// follower's replication client never got as far as reading it
						if n09StateSwitchHangs(sl) {
							return "DEADLOCK: " + last + "; the follower's replication client has completed the handshake but SLock.updateState (entered from clientSycnInited) has not returned for > 1.5 s: it holds SLock.glock and waits for a LockDB manager mutex" + n09Stacks("updateState", "HandleLoad", "HandleReplay") + "\n" + e.dumpFiles(f)
						}
						detail := ""
						for _, ch := range chans {
							detail += fmt.Sprintf(" [leader cursor: last sent %s seq %d item=%v]", FormatAofId(ch.bufferCursor.currentAofId), ch.bufferCursor.seq, ch.bufferCursor.currentItem != nil)
						}
						s.proxy.mu.Lock()
						if s.proxy.startId != nil {
							detail += fmt.Sprintf(" [last transfer/resume position seen by the proxy: %v]", *s.proxy.startId)
						}
						s.proxy.mu.Unlock()
						if os.Getenv("VERIF_N09_DEBUG") != "" {
							buf := make([]byte, 1<<20)
							buf = buf[:runtime.Stack(buf, true)]
							for _, g := range strings.Split(string(buf), "\n\n") {
								if strings.Contains(g, "Replication") || strings.Contains(g, "replication.go") || strings.Contains(g, "/server/aof.go") || strings.Contains(g, "/server/db.go") {
									detail += "\n" + g
								}
							}
						}
						return "GAP: " + last + "; every replication cursor of the leader stands at the end of its ring and has nothing left to send" + detail + "\n" + e.dumpFiles(f)
					}
				} else {
					stuck = 0
				}
			}
		}
		if polls%50 == 0 {
			s.proxy.mu.Lock()
			skipped := s.proxy.skipAhead > 0
			s.proxy.mu.Unlock()
			if skipped && time.Since(deadline.Add(-n09Watchdog)) > 1500*time.Millisecond {
				return "SKIPPED: " + last
			}
		}
		if polls%100 == 0 && cc != nil {
			// a follower that can never resynchronise: its own directory has a hole in the append file
			// indices, so every Aof.Reset / FindAofFiles fails ("append.aof file index error")
			if _, _, ferr := sl.aof.FindAofFiles(); ferr != nil && strings.Contains(ferr.Error(), "file index error") {
				if holeSince.IsZero() {
					holeSince, holeConnects = time.Now(), cc.state.connectCount
				} else if time.Since(holeSince) > time.Second && cc.state.connectCount > holeConnects+3 {
					return "WEDGED: " + last + fmt.Sprintf("; the follower's directory has a hole in its append file indices (%v), every resynchronisation attempt fails (%d reconnects in %v)", ferr, cc.state.connectCount-holeConnects, time.Since(holeSince).Round(time.Millisecond)) + "\n" + e.dumpFiles(f)
				}
			} else {
				holeSince = time.Time{}
			}
		}
		if time.Now().After(deadline) {
			return "quiescence watchdog: " + last + "\n" + e.dumpFiles(f)
		}
		time.Sleep(2 * time.Millisecond)
	}
}

func n09DirIds(dir string) string {
	var sb strings.Builder
	m, _ := filepath.Glob(filepath.Join(dir, "*.aof*"))
	sort.Strings(m)
	for _, f := range m {
		if strings.HasSuffix(f, ".dat") {
			continue
		}
		recs, err := n09ParseAofFile(f)
		fmt.Fprintf(&sb, "      %s:", filepath.Base(f))
		for _, r := range recs {
			fmt.Fprintf(&sb, " %v(%s db%d k%d id%d f%#x af%#x e%d/%#x c%d r%d)", r.Id, map[byte]string{1: "L", 2: "U"}[r.Buf[2]], r.Buf[20], r.Buf[37], r.Buf[21], r.Buf[19], uint16(r.Buf[55])|uint16(r.Buf[56])<<8, uint16(r.Buf[57])|uint16(r.Buf[58])<<8, uint16(r.Buf[59])|uint16(r.Buf[60])<<8, uint16(r.Buf[61])|uint16(r.Buf[62])<<8, r.Buf[63])
		}
		if err != nil {
			fmt.Fprintf(&sb, " [%v]", err)
		}
		if dat, derr := os.ReadFile(f + ".dat"); derr == nil {
			if len(dat) > 300 {
				fmt.Fprintf(&sb, " | .dat %d bytes: %x.. (fnv %x)", len(dat), dat[:120], vHash(dat))
			} else {
				fmt.Fprintf(&sb, " | .dat %d bytes: %x", len(dat), dat)
			}
		}
		sb.WriteByte('\n')
	}
	return sb.String()
}

func (e *n09Env) dumpFiles(f int) string {
	l := e.leader.inst.slock
	bq := l.replicationManager.bufferQueue
	s := fmt.Sprintf("    leader: aof file index %d offset %d, ring seq %d size %d dup %d, files:\n%s", l.aof.aofFileIndex, l.aof.aofFileOffset, bq.seq, bq.bufferSize, bq.dupCount, n09DirIds(l.aof.dataDir))
	if n := e.slots[f].node; n != nil {
		a := n.inst.slock.aof
		s += fmt.Sprintf("    follower %d: aof file index %d offset %d, files:\n%s", f, a.aofFileIndex, a.aofFileOffset, n09DirIds(a.dataDir))
	}
	return s
}

type n09Hold struct {
	Id      [16]byte
	Depth   uint8
	Count   uint16
	Rcount  uint8
	EF      uint16
	Expried int64
}

type n09KeyState struct {
	Holds []n09Hold
	Data  []byte
}

func n09Canon(sl *SLock, onlyAof bool) map[string]*n09KeyState {
	out := map[string]*n09KeyState{}
	for dbi := 0; dbi < 2; dbi++ {
		db := sl.dbs[dbi]
		if db == nil {
			continue
		}
		for _, k := range aSnapshot(dbi, db) {
			ks := &n09KeyState{Data: k.Data}
			for _, h := range k.Holders {
				if onlyAof && !h.IsAof {
					continue
				}
				ks.Holds = append(ks.Holds, n09Hold{h.Id, h.Depth, h.Count, h.Rcount, h.EF, h.ExpriedTime})
			}
			if len(ks.Holds) == 0 {
				continue
			}
			sort.Slice(ks.Holds, func(i, j int) bool { return bytes.Compare(ks.Holds[i].Id[:], ks.Holds[j].Id[:]) < 0 })
			out[fmt.Sprintf("db%d/key%d", dbi, int(k.Key[0])|int(k.Key[1])<<8)] = ks
		}
	}
	return out
}

func n09DescribeState(m map[string]*n09KeyState) string {
	var keys []string
	for k := range m {
		keys = append(keys, k)
	}
	sort.Strings(keys)
	var sb strings.Builder
	for _, k := range keys {
		fmt.Fprintf(&sb, "      %s value=%s:", k, n09Hex(m[k].Data))
		for _, h := range m[k].Holds {
			fmt.Fprintf(&sb, " [id%d depth=%d count=%d rcount=%d ef=%#x deadline=%d]", int(h.Id[0])|int(h.Id[1])<<8, h.Depth, h.Count, h.Rcount, h.EF, h.Expried)
		}
		sb.WriteByte('\n')
	}
	if len(keys) == 0 {
		sb.WriteString("      (no holds)\n")
	}
	return sb.String()
}

func n09CompareState(lead, fol map[string]*n09KeyState) string {
	var diffs []string
	for k, l := range lead {
		f := fol[k]
		if f == nil {
			diffs = append(diffs, fmt.Sprintf("%s held on the leader, absent on the follower", k))
			continue
		}
		if !bytes.Equal(l.Data, f.Data) {
			diffs = append(diffs, fmt.Sprintf("%s value: leader %s follower %s", k, n09Hex(l.Data), n09Hex(f.Data)))
		}
		if len(l.Holds) != len(f.Holds) {
			diffs = append(diffs, fmt.Sprintf("%s: %d holders on the leader, %d on the follower", k, len(l.Holds), len(f.Holds)))
			continue
		}
		for i := range l.Holds {
			a, b := l.Holds[i], f.Holds[i]
			if a.Id != b.Id || a.Depth != b.Depth || a.Count != b.Count || a.Rcount != b.Rcount {
				diffs = append(diffs, fmt.Sprintf("%s holder %d differs: leader %+v follower %+v", k, i, a, b))
				continue
			}
			if a.EF&protocol.EXPRIED_FLAG_UNLIMITED_EXPRIED_TIME != b.EF&protocol.EXPRIED_FLAG_UNLIMITED_EXPRIED_TIME {
				diffs = append(diffs, fmt.Sprintf("%s holder id%d: unlimited-expiry flag differs (leader %#x follower %#x)", k, a.Id[0], a.EF, b.EF))
				continue
			}
			if a.EF&protocol.EXPRIED_FLAG_UNLIMITED_EXPRIED_TIME == 0 {
				d := a.Expried - b.Expried
				if d < -1 || d > 1 {
					diffs = append(diffs, fmt.Sprintf("%s holder id%d: deadline leader %d follower %d (more than one second apart)", k, a.Id[0], a.Expried, b.Expried))
				}
			}
		}
	}
	for k := range fol {
		if lead[k] == nil {
			diffs = append(diffs, fmt.Sprintf("%s held on the follower, not (persisted) on the leader", k))
		}
	}
	sort.Strings(diffs)
	return strings.Join(diffs, "; ")
}

// referenceState boots a scratch leader from a copy of the leader's directory and returns what the
// leader's own files recover to. Used only to attribute a divergence: a follower that equals this
// state applied the leader's log exactly - the log itself (after compaction) is what is wrong.
func (e *n09Env) referenceState() (map[string]*n09KeyState, error) {
	aof := e.leader.inst.slock.aof
	_ = aof.WaitRewriteAofFiles()
	aof.FlushWithLocked()
	dir := vScratchDir("n09-ref")
	m, _ := filepath.Glob(filepath.Join(aof.dataDir, "*"))
	for _, f := range m {
		b, err := os.ReadFile(f)
		if err != nil {
			continue
		}
		if err = os.WriteFile(filepath.Join(dir, filepath.Base(f)), b, 0644); err != nil {
			return nil, err
		}
	}
	o := n09InstOpts(e.c)
	o.DataDir = dir
	inst, err := n09NewInst(o)
	if err != nil {
		_ = os.RemoveAll(dir)
		return nil, err
	}
	n09Drain(inst.slock.aof)
	st := n09Canon(inst.slock, false)
	inst.vClose(false, true)
	return st, nil
}

type n09Rec struct {
	Id   n09Id
	Buf  [64]byte
	Data []byte
}

// n09ParseAofFile reads an append file as aof.go lays it out: 12-byte header (+ extension), 64-byte
// records; the payload of records flagged CONTAINS_DATA sits in <file>.dat as len32 | bytes, in
// record order.
func n09ParseAofFile(path string) ([]n09Rec, error) {
	b, err := os.ReadFile(path)
	if err != nil {
		return nil, err
	}
	if len(b) < 12 || string(b[:8]) != "SLOCKAOF" {
		return nil, fmt.Errorf("%s: no AOF header", filepath.Base(path))
	}
	hl := int(b[10]) | int(b[11])<<8
	b = b[12+hl:]
	dat, _ := os.ReadFile(path + ".dat")
	var out []n09Rec
	for len(b) >= 64 {
		var r n09Rec
		copy(r.Buf[:], b[:64])
		b = b[64:]
		r.Id = n09Id{uint32(r.Buf[7]) | uint32(r.Buf[8])<<8 | uint32(r.Buf[9])<<16 | uint32(r.Buf[10])<<24, uint32(r.Buf[3]) | uint32(r.Buf[4])<<8 | uint32(r.Buf[5])<<16 | uint32(r.Buf[6])<<24}
		if (uint16(r.Buf[55])|uint16(r.Buf[56])<<8)&AOF_FLAG_CONTAINS_DATA != 0 {
			if len(dat) < 4 {
				return out, fmt.Errorf("%s: payload of record %v missing in .dat", filepath.Base(path), r.Id)
			}
			n := int(uint32(dat[0]) | uint32(dat[1])<<8 | uint32(dat[2])<<16 | uint32(dat[3])<<24)
			if len(dat) < 4+n {
				return out, fmt.Errorf("%s: payload of record %v truncated in .dat", filepath.Base(path), r.Id)
			}
			r.Data = append([]byte{}, dat[:4+n]...)
			dat = dat[4+n:]
		}
		out = append(out, r)
	}
	if len(b) != 0 {
		return out, fmt.Errorf("%s: %d trailing bytes", filepath.Base(path), len(b))
	}
	return out, nil
}

func n09SameRecord(a, b *n09Rec) bool {
	x, y := a.Buf, b.Buf
	x[55] &^= AOF_FLAG_REWRITED
	y[55] &^= AOF_FLAG_REWRITED
	return x == y && bytes.Equal(a.Data, b.Data)
}

// collectTruth merges the leader's files that are still on disk into the copies taken at rotations.
func (e *n09Env) collectTruth() error {
	aof := e.leader.inst.slock.aof
	_ = aof.WaitRewriteAofFiles()
	aof.FlushWithLocked()
	files, _, err := aof.FindAofFiles()
	if err != nil {
		return err
	}
	for _, f := range files {
		var idx uint32
		_, _ = fmt.Sscanf(f, "append.aof.%d", &idx)
		if _, ok := e.finalOff[idx]; ok {
			continue // closed file, copied when it was complete
		}
		recs, perr := n09ParseAofFile(filepath.Join(aof.dataDir, f))
		if perr != nil {
			return perr
		}
		e.truth[idx] = recs
	}
	return nil
}

func (e *n09Env) truthPayload(fr []byte) bool {
	for _, recs := range e.truth {
		for i := range recs {
			if recs[i].Data != nil && bytes.Equal(recs[i].Data, fr) {
				return true
			}
		}
	}
	return false
}

func (e *n09Env) truthRecord(id n09Id) *n09Rec {
	recs := e.truth[id.Idx]
	if id.Off >= 1 && int(id.Off) <= len(recs) && recs[id.Off-1].Id == id {
		return &recs[id.Off-1]
	}
	for i := range recs {
		if recs[i].Id == id {
			return &recs[i]
		}
	}
	return nil
}

const n09KeyDupFlush = "C09:follower-log-duplicated-by-unlocked-flush-during-file-transfer"

// n09ReadRaw splits an append file into its 64-byte records and its .dat into len32-prefixed frames.
func n09ReadRaw(path string) (recs [][64]byte, frames [][]byte, err error) {
	b, err := os.ReadFile(path)
	if err != nil {
		return nil, nil, err
	}
	if len(b) < 12 || string(b[:8]) != "SLOCKAOF" {
		return nil, nil, fmt.Errorf("no AOF header")
	}
	b = b[12+(int(b[10])|int(b[11])<<8):]
	for len(b) >= 64 {
		var r [64]byte
		copy(r[:], b[:64])
		recs = append(recs, r)
		b = b[64:]
	}
	if len(b) != 0 {
		err = fmt.Errorf("%d trailing bytes after the last record", len(b))
	}
	dat, _ := os.ReadFile(path + ".dat")
	for len(dat) >= 4 {
		n := int(uint32(dat[0]) | uint32(dat[1])<<8 | uint32(dat[2])<<16 | uint32(dat[3])<<24)
		if len(dat) < 4+n {
			break
		}
		frames = append(frames, append([]byte{}, dat[:4+n]...))
		dat = dat[4+n:]
	}
	if len(dat) != 0 && err == nil {
		err = fmt.Errorf("%d trailing bytes in .dat", len(dat))
	}
	return
}

func n09RecId(r *[64]byte) n09Id {
	return n09Id{uint32(r[7]) | uint32(r[8])<<8 | uint32(r[9])<<16 | uint32(r[10])<<24, uint32(r[3]) | uint32(r[4])<<8 | uint32(r[5])<<16 | uint32(r[6])<<24}
}

// checkOneFile compares a follower file with the leader's log. tolerant = accept byte-identical
// repetitions of records already seen in this file and of payload frames already consumed (the
// signature of two unsynchronised AofFile.Flush calls writing the same buffer twice).
func (e *n09Env) checkOneFile(f int, dir, name string, exact bool, start *n09Id, target n09Id, tolerant bool) (msg string, dups int) {
	msg, dups = e.checkOneFileMode(f, dir, name, exact, start, target, tolerant, false)
	if tolerant && msg != "" {
		// second reading of the same signature: one frame per record, but a frame may be the payload of another record
		// of the log (slots of the write buffer flushed twice / out of turn)
		if m2, d2 := e.checkOneFileMode(f, dir, name, exact, start, target, true, true); m2 == "" && d2 > 0 {
			return "", d2
		}
	}
	return
}

func (e *n09Env) checkOneFileMode(f int, dir, name string, exact bool, start *n09Id, target n09Id, tolerant, one2one bool) (msg string, dups int) {
	recs, frames, rerr := n09ReadRaw(filepath.Join(dir, name))
	if rerr != nil && recs == nil {
		return fmt.Sprintf("follower %d %s unreadable: %v", f, name, rerr), 0
	}
	if rerr != nil {
		return fmt.Sprintf("follower %d %s: %v", f, name, rerr), 0
	}
	seen := map[n09Id][64]byte{}
	usedFrames := map[string]bool{}
	var prev *n09Id
	var live []n09Id
	fi := 0
	for i := range recs {
		r := &recs[i]
		id := n09RecId(r)
		if prev != nil && !prev.less(id) {
			if old, ok := seen[id]; tolerant && ok && old == *r {
				dups++
				continue
			}
			return fmt.Sprintf("follower %d %s: record %v follows %v (duplicate or reordered)", f, name, id, *prev), dups
		}
		prev = &id
		seen[id] = *r
		g := e.truthRecord(id)
		if g == nil {
			return fmt.Sprintf("follower %d %s: record %v does not exist in the leader's log", f, name, id), dups
		}
		x, y := g.Buf, *r
		x[55] &^= AOF_FLAG_REWRITED
		y[55] &^= AOF_FLAG_REWRITED
		if x != y {
			return fmt.Sprintf("follower %d %s: record %v differs from the leader's\n      leader   %x\n      follower %x", f, name, id, g.Buf, *r), dups
		}
		if (uint16(r[55])|uint16(r[56])<<8)&AOF_FLAG_CONTAINS_DATA != 0 {
			for {
				if fi >= len(frames) {
					return fmt.Sprintf("follower %d %s: payload of record %v missing in .dat (expected %x)", f, name, id, g.Data), dups
				}
				fr := frames[fi]
				fi++
				if bytes.Equal(fr, g.Data) {
					usedFrames[string(fr)] = true
					break
				}
				if one2one && e.truthPayload(fr) {
					dups++
					break
				}
				if tolerant && (usedFrames[string(fr)] || e.truthPayload(fr)) {
					dups++
					continue
				}
				return fmt.Sprintf("follower %d %s: payload of record %v is %x, the leader logged %x", f, name, id, fr, g.Data), dups
			}
		}
		if exact && start != nil && !id.less(*start) {
			live = append(live, id)
		}
	}
	for ; fi < len(frames); fi++ {
		if tolerant && (usedFrames[string(frames[fi])] || e.truthPayload(frames[fi])) {
			dups++ // repeated, or the payload of a record whose 64 bytes were lost in the same race
			continue
		}
		return fmt.Sprintf("follower %d %s: .dat holds a payload %x that belongs to no record", f, name, frames[fi]), dups
	}
	if !exact || start == nil {
		return "", dups
	}
	var idx uint32
	_, _ = fmt.Sscanf(name, "append.aof.%d", &idx)
	var want []n09Id
	for _, g := range e.truth[idx] {
		if !g.Id.less(*start) && !target.less(g.Id) {
			want = append(want, g.Id)
		}
	}
	if fmt.Sprint(live) != fmt.Sprint(want) && !(len(live) == 0 && len(want) == 0) {
		return fmt.Sprintf("follower %d %s: records from its start id %v on are %v, the leader logged %v (gap, duplicate or lost tail)", f, name, *start, live, want), dups
	}
	return "", dups
}

// checkFiles: follower files versus the leader's log, record by record.
func (e *n09Env) checkFiles(f int, target n09Id) (key, msg string) {
	s := e.slots[f]
	aof := s.node.inst.slock.aof
	_ = aof.WaitRewriteAofFiles()
	aof.FlushWithLocked()
	files, rewrite, err := aof.FindAofFiles()
	if err != nil {
		// no compaction is running (waited above): the hole is permanent
		return n09KeyWedged, fmt.Sprintf("follower %d is caught up in memory but its directory is unusable: Aof.FindAofFiles fails with %q (hole in the append file indices) - no later resynchronisation (Aof.Reset), compaction or restart of this follower can succeed", f, err.Error())
	}
	s.proxy.mu.Lock()
	var start *n09Id
	if s.proxy.startId != nil {
		v := *s.proxy.startId
		start = &v
	}
	s.proxy.mu.Unlock()
	names := []string{}
	if rewrite != "" {
		names = append(names, rewrite)
	}
	names = append(names, files...)
	for _, name := range names {
		exact := name != rewrite
		m, _ := e.checkOneFile(f, aof.dataDir, name, exact, start, target, false)
		if m == "" {
			continue
		}
		// strict comparison failed: is it exactly the double-flush signature?
		if m2, dups := e.checkOneFile(f, aof.dataDir, name, exact, start, target, true); m2 == "" && dups > 0 {
			s.tainted = true
			s.proxy.mu.Lock()
			redelivered := s.proxy.redelivered
			s.proxy.mu.Unlock()
			if redelivered > 0 {
				// the repetitions came over the wire: a resume from a stale position (unjoined pipelines), not a double flush
				return n09KeyLeftOver, fmt.Sprintf("%s\n    (%d live records were forwarded to this follower a second time; apart from %d byte-identical repetitions the file matches the leader's log)", m, redelivered, dups)
			}
			return n09KeyDupFlush, fmt.Sprintf("%s\n    (apart from %d byte-identical repetitions of earlier records/payloads the file matches the leader's log)", m, dups)
		}
		return "C09:follower-log-differs", m
	}
	return "", ""
}

func (e *n09Env) syncAndCheck(final bool) (key, violation, inconclusive string) {
	target, seq := e.leaderTarget()
	var tl AofLock
	tl.SetAofId(target)
	tid := n09Id{tl.AofIndex, tl.AofOffset}
	if seq == 0 && (tid.Off == 0 || tl.CommandTime == 0) {
		return "", "", "" // nothing logged yet (a restarted leader has an empty ring but a position: its last record)
	}
	e.info.syncs++
	var active []int
	for i, s := range e.slots {
		if s.node != nil && !s.stall {
			active = append(active, i)
		}
	}
	for _, i := range active {
		if why := e.waitCaughtUp(i, target); why != "" {
			if strings.HasPrefix(why, "GAP: ") {
				return "C09:live-stream-gap", fmt.Sprintf("follower %d will never converge: %s", i, why[5:]), ""
			}
			if strings.HasPrefix(why, "DEADLOCK: ") {
				return n09KeyStateSwitchDeadlock, fmt.Sprintf("follower %d will never converge: %s", i, why[10:]), ""
			}
			if strings.HasPrefix(why, "SKIPPED: ") {
				return n09KeySkipAhead, fmt.Sprintf("follower %d resumed at the bound of a full transfer that had delivered nothing and does not reach the leader's position: %s", i, why[9:]), ""
			}
			if strings.HasPrefix(why, "WEDGED: ") {
				return n09KeyWedged, fmt.Sprintf("follower %d never converges: %s", i, why[8:]), ""
			}
			return "", "", why
		}
	}
	if err := e.collectTruth(); err != nil {
		return "", "", "cannot read the leader's files: " + err.Error()
	}
	lead := n09Canon(e.leader.inst.slock, true)
	if n := len(lead); n > e.info.maxHolds {
		e.info.maxHolds = n
	}
	for _, i := range active {
		s := e.slots[i]
		fol := n09Canon(s.node.inst.slock, false)
		s.proxy.mu.Lock()
		if s.proxy.rewritedInTransfer > 0 && s.compactedInput == "" {
			s.compactedInput = fmt.Sprintf("%d records of the leader's rewrite.aof in its file transfers", s.proxy.rewritedInTransfer)
		}
		s.proxy.mu.Unlock()
		if d := n09CompareState(lead, fol); d != "" {
			e.lastLeaderSnap, e.lastFollowerSnap = lead, fol
			key := "C09:follower-state-diverges"
			if s.tainted && n09Known(n09KeyDupFlush) {
				key = n09KeyDupFlush // the follower reloaded a directory that the double flush had corrupted
			}
			s.proxy.mu.Lock()
			if s.proxy.skipAhead > 0 {
				key = n09KeySkipAhead
			}
			s.proxy.mu.Unlock()
			note := ""
			s.proxy.mu.Lock()
			twice := s.proxy.sentTwice
			s.proxy.mu.Unlock()
			if key == "C09:follower-state-diverges" && twice != "" {
				key = n09KeyFirstTwice
				note = "    " + twice + "\n"
			} else if key == "C09:follower-state-diverges" {
				if ref, rerr := e.referenceState(); rerr == nil {
					if rd := n09CompareState(ref, fol); rd == "" {
						key = n09KeyCompactedLog
						note = "    the follower equals what a restart of the leader from its own files recovers: the leader's (compacted) log no longer describes the leader's state\n"
						if n09Known(key) {
							e.info.knownCompactedLog++
							continue
						}
					} else if ld := n09CompareState(lead, ref); ld != "" {
						// the leader's own files do not recover the leader's state either: the log this follower was
						// fed from is not a description of the leader (compaction finding), so nothing built from it
						// can be held against the leader's state
						key = n09KeyCompactedLog
						note = "    a restart of the leader from its own files does not recover the leader's state (" + ld + "): the (compacted) log itself is wrong\n" + n09DescribeState(ref)
						if n09Known(key) {
							e.info.knownCompactedLog++
							continue
						}
					} else if why := s.compactedInput; why != "" {
						// built from a compacted log (the leader's rewrite.aof in a transfer, or its own after a restart):
						// the compaction drops records whose effects (values, update terms) are still visible
						key = n09KeyCompactedLog
						note = "    this follower was built from a compacted log (" + why + ")\n"
						if n09Known(key) {
							e.info.knownCompactedLog++
							continue
						}
					} else {
						note = "    a restart of the leader from its own files recovers the leader's state; the follower differs from both\n"
						s.proxy.mu.Lock()
						fulls := s.proxy.fullSyncs - s.fullSyncsAtJoin
						s.proxy.mu.Unlock()
						dupMsg := ""
						if k2, m2 := e.checkFiles(i, tid); k2 == n09KeyDupFlush || k2 == n09KeyLeftOver {
							dupMsg = m2
						}
						if dupMsg != "" {
							// second signature of the same finding: the records of a connection were delivered again after a
							// resume from a stale position - the follower's log holds them twice and they were applied twice
							key = n09KeyLeftOver
							note += "    its log holds byte-identical repetitions: " + strings.SplitN(dupMsg, "\n", 2)[0] + "\n"
							if n09Known(key) {
								e.info.knownLeftOver++
								continue
							}
						} else if fulls >= 2 {
							// signature of an open finding: this incarnation was resynchronised from scratch at least twice
							// (Aof.Reset + FlushDB + transfer) and ends with holds / depths the leader does not have
							key = n09KeyLeftOver
							note += fmt.Sprintf("    this follower went through %d full transfers without a restart\n", fulls)
							if n09Known(key) {
								e.info.knownLeftOver++
								continue
							}
						}
					}
				}
			}
			return key, note + fmt.Sprintf("follower %d caught up to the leader's last id %s but its state differs: %s\n    leader (persisted holds):\n%s    follower %d:\n%s", i, tid, d, n09DescribeState(lead), i, n09DescribeState(fol)) + e.dumpFiles(i), ""
		}
		s.proxy.mu.Lock()
		wire := s.proxy.wireViolation
		jumps := s.proxy.fileJumps
		s.proxy.mu.Unlock()
		if wire != "" {
			return "C09:live-stream-gap", fmt.Sprintf("follower %d: %s", i, wire), ""
		}
		for _, j := range jumps {
			if fo, ok := e.finalOff[j[0].Idx]; ok && fo != j[0].Off {
				return "C09:live-stream-gap", fmt.Sprintf("follower %d: live stream jumped from %v to %v but append.aof.%d ended at offset %d", i, j[0], j[1], j[0].Idx, fo), ""
			}
		}
		if key, msg := e.checkFiles(i, tid); msg != "" {
			if key == n09KeyDupFlush && n09Known(key) {
				e.info.knownDupFlush++
				continue
			}
			if key == n09KeyLeftOver && n09Known(key) {
				e.info.knownLeftOver++
				continue
			}
			return key, msg + "\n" + e.dumpFiles(i), ""
		}
	}
	return "", "", ""
}

// ---------------------------------------------------------------------------------------------
// executor

func n09RunCluster(c *n09Case) (out n09Out) {
	e, err := n09NewEnv(c)
	if err != nil {
		out.inconclusive = "cannot start the cluster: " + err.Error()
		return
	}
	defer func() {
		if r := recover(); r != nil {
			out.err = fmt.Errorf("panic in the harness goroutine: %v\n%s\n%s", r, vRepoFrames(), e.report())
			out.key = "C09:panic"
		}
		e.close()
		out.info = e.info
		out.info.abandoned = e.info.abandoned
	}()
	e.info.smallFileBuf = c.FileBuf > 0 && c.FileBuf < 4096
	fail := func(key, msg string) {
		if e.harnessTainted != "" {
			// not a verdict: the harness itself lost control of an instance
			out.discarded = e.harnessTainted
			return
		}
		out.key = key
		out.err = fmt.Errorf("%s\n%s", msg, e.report())
		out.leaderSnap, out.followerSnap = e.lastLeaderSnap, e.lastFollowerSnap
	}
	for i, op := range c.Ops {
		e.logf("#%d %v", i, op)
		if op.K != "lock" && op.K != "unlock" && op.K != "hold" {
			e.unholdSenders()
		}
		switch op.K {
		case "hold":
			e.holdSenders()
		case "unhold":
		case "fburst":
			e.followerBurst(op)
		case "shortlived":
			e.shortLived(op)
		case "pause":
			time.Sleep(time.Duration(op.N) * time.Millisecond)
			e.info.pauses++
		case "lock", "unlock":
			if op.V != nil && op.V.L > 4000 {
				e.info.bigValues++
			}
			e.send(op)
		case "rotate":
			e.rotate()
		case "restart":
			if why := e.restartLeader(); why != "" {
				out.inconclusive = why
				return
			}
		case "join":
			if op.F < len(e.slots) {
				if jerr := e.join(op); jerr != nil {
					out.inconclusive = "follower start failed: " + jerr.Error()
					return
				}
			}
		case "stop":
			if op.F < len(e.slots) {
				e.stop(op.F)
			}
		case "stall", "unstall":
			if op.F < len(e.slots) {
				e.slots[op.F].stall = op.K == "stall"
				e.slots[op.F].proxy.setStall(op.K == "stall")
			}
		case "drop":
			if op.F < len(e.slots) {
				e.slots[op.F].proxy.dropConns()
			}
		case "sync":
			key, viol, inc := e.syncAndCheck(false)
			if inc != "" {
				out.inconclusive = inc + "\n" + e.report()
				return
			}
			if viol != "" {
				fail(key, viol)
				return
			}
		}
	}
	e.unholdSenders()
	// final quiescence: every follower slot is connected and unstalled
	for i, s := range e.slots {
		if s.stall {
			s.stall = false
			s.proxy.setStall(false)
		}
		if s.node == nil {
			e.logf("#final join f%d", i)
			if jerr := e.join(n09Op{K: "join", F: i}); jerr != nil {
				out.inconclusive = "follower start failed: " + jerr.Error()
				return
			}
		}
	}
	e.logf("#final sync")
	key, viol, inc := e.syncAndCheck(true)
	for _, s := range e.slots {
		s.proxy.mu.Lock()
		e.info.cutsHandshake += s.proxy.cutsByPhase[n09PhaseHandshake]
		e.info.cutsFiles += s.proxy.cutsByPhase[n09PhaseFiles]
		e.info.cutsLive += s.proxy.cutsByPhase[n09PhaseLive]
		e.info.fullSyncs += s.proxy.fullSyncs
		e.info.resumes += s.proxy.resumes
		e.info.notFound += s.proxy.notFound
		e.info.skipAhead += s.proxy.skipAhead
		e.info.deferredCuts += s.proxy.deferredCuts
		s.proxy.mu.Unlock()
	}
	bq := e.leader.inst.slock.replicationManager.bufferQueue
	e.info.ringDup = bq.dupCount
	if bq.tailItem != nil && bq.tailItem.seq > 0 {
		e.info.ringOverflow = true
	}
	e.info.records = int(bq.seq)
	if inc != "" {
		out.inconclusive = inc + "\n" + e.report()
		return
	}
	if viol != "" {
		fail(key, viol)
	}
	return
}
