# Human-written part of MANIFEST.json (tools/gen_manifest.py merges it with registry.py).
HOOK_COMMITS = ["a842bba", "3341887", "f9c8b5d", "69cf264"]
NOTES = ("All checks are property-based tests / fuzzing (pgregory.net/rapid v1.3.0 generators and state machines; native go fuzzing "
         "only in thorough tiers) against explicit oracles; see DESIGN.md. ./check <id> rebuilds the harness against /repo's working tree "
         "on every invocation (go test -c -tags verif with -modfile/-overlay generated under a scratch directory), runs sharded over all "
         "cores with seeds derived from VERIF_SEED, writes evidence/<id>.json from the harness' own counters, replays the committed "
         "reproductions under replays/<id>/ and handles known_findings.json (KNOWN-FINDING lines for listed keys only; a reproducing "
         "'fixed' entry or any unlisted failure is a VIOLATION). Exit 2 = inconclusive (build error, watchdog), never a verdict.")
ENGINES = {
    "Q-queues": {"path": "harness/server/c20_queues_test.go", "props": ["C20"], "kind": "model-based PBT (rapid) of the internal queues against slice / stable priority-queue models"},
    "A-virtual-clock": {"path": "harness/server/ea_engine_test.go, ea_monitor_test.go, ea_gen_test.go, ea_value_test.go", "props": ["C01", "C02", "C03", "C04", "C05", "C06", "C15", "C17"],
                        "kind": "stateful PBT (rapid): generated LOCK/UNLOCK/clock histories against a fresh in-process leader whose sweeps are driven by a virtual clock (hook H1); reference ledger + in-package snapshot monitors"},
    "V-value-pure": {"path": "harness/server/c15_pure_test.go", "props": ["C15"], "kind": "differential PBT: ProcessLockData vs. a sequential value interpreter"},
    "codec": {"path": "harness/protocol/c14_codec_test.go, harness/server/c14_diff_test.go", "props": ["C14"], "kind": "round-trip / offset-table / chunking-independence PBT of the codecs, differential against the server's inlined codec and text-vs-binary execution"},
    "C-client": {"path": "harness/server/c19_client_test.go", "props": ["C19"], "kind": "PBT of generated goroutine scripts through the Go client over loopback TCP; client-side history oracle with a logical clock"},
}
_A_LEVEL = ("Exploration: thousands (quick) to hundreds of thousands (thorough) of generated request/clock histories per run, each on a fresh "
            "server instance, every reply and an in-package snapshot after every step compared with a reference ledger written from the property "
            "statement. Sequential histories only: the order of replies equals the order of decisions, timers fire on a harness-driven clock through the "
            "server's own sweep functions. Interleavings inside the server are not explored by this engine.")
_A_NOTE = ("Trusted: the reference ledger/monitor in harness/server/ea_monitor_test.go; hook H1 (verif build tag) that keeps the wall-clock sweep goroutines "
           "off; the in-package snapshot reads the same structures the server uses. Known findings are tolerated only for their listed key.")
META = {
    "C20": {
        "engine": "Q-queues",
        "design_ref": "DESIGN.md §5 C20, §4 Engine Q",
        "technique": "model-based property testing (rapid) against a slice deque / stable priority-queue reference model",
        "level_text": ("Exploration: tens of thousands (quick) to millions (thorough) of generated operation programs per queue type, every return "
                       "value compared with a plain slice model; covers all constructor shapes used in the tree plus degenerate ones, every "
                       "node-boundary, growth and representation switch. Sampling, not proof: absence of a counterexample is evidence only."),
        "level_note": ("Trusted: the slice models in the harness; Reset/Rellac only on drained queues (callers' precondition); Shrink checked "
                       "separately and listed as a known finding (dead code)."),
    },
    "C14": {
        "engine": "codec",
        "design_ref": "DESIGN.md §5 C14",
        "technique": "round-trip, independent offset table, chunking-metamorphic and differential property testing (rapid)",
        "level_text": ("Exploration over generated field values, arbitrary 64-byte frames, argument lists and delivery plans; oracles are an offset table written from the "
                       "README / type declarations, an independent RESP writer, an independent key normaliser, and the protocol package as reference for the server's "
                       "hand-inlined lock codec. Pure functions, so every case is exactly reproducible."),
        "level_note": "Trusted: the harness' offset table and RESP writer; README offsets exist for the two lock frames only, the other types use their type declarations.",
    },
    "C19": {
        "engine": "C-client",
        "design_ref": "DESIGN.md §5 C19, §4 Engine C",
        "technique": "property-based testing of generated concurrent client scripts; validity predicate over the client-side history",
        "level_text": ("Exploration of real schedules: generated goroutine scripts run through the Go client against an in-process server over loopback TCP; the oracle checks "
                       "definitely-held intervals on a global logical clock. Scripts are reproducible, schedules are not; a violation is printed with its full history."),
        "level_note": "Trusted: stamp order (acquire stamped after return, release before the unlock is issued); no follower forwarding; liveness is not judged.",
    },
}
for _p, _t in (("C01", "admission predicate at every grant of a new holder (from the reply ledger and the in-package snapshot)"),
               ("C02", "ownership, refusal and re-entrant depth arithmetic at every lock/unlock reply; 'changes nothing' through snapshot comparison"),
               ("C03", "reply multiset per request: exactly one terminal reply, at most one EXPRIED under the right RequestId, right client; checked at every reply and after a drain"),
               ("C04", "queue order at every grant and 'no admissible head waiter' after every operation and clock second"),
               ("C05", "TIMEOUT window [T, T+2 s] on the server clock, immediate TIMEOUT for timeout 0, no grant after TIMEOUT"),
               ("C06", "EXPRIED window [E, E+2 s] (10 s after a shortening), restart on re-lock/update, unlimited never expires, capacity freed and queue served"),
               ("C17", "LCount/LRCount of every reply and STATE counters against ledger and census after every step; after the drain everything zero, no value, no freed record reachable")):
    META[_p] = {"engine": "A-virtual-clock", "design_ref": "DESIGN.md §4 Engine A, §5 " + _p,
                "technique": "stateful property-based testing (rapid) with a reference-model monitor: " + _t,
                "level_text": _A_LEVEL, "level_note": _A_NOTE}
META["C15"] = {"engine": "A-virtual-clock + V-value-pure", "design_ref": "DESIGN.md §5 C15",
               "technique": "differential property testing (rapid) against a sequential value interpreter, pure and through generated lock histories",
               "level_text": ("Exploration: (a) generated operation sequences on a bare key manager vs. a sequential interpreter (pure, reproducible); (b) value operations carried on generated "
                              "lock/re-lock/update/unlock histories in engine A, every reply's data and the stored value compared with the interpreter. The Redis-style text commands of the "
                              "statement are not yet covered by this check."),
               "level_note": _A_NOTE + " The interpreter is written from the protocol description; typed keys; multi-operation PIPELINEs are a listed known finding."}
ENGINES["P-persistence"] = {"path": "harness/server/ep_persist_test.go", "props": ["C07"], "kind": "stateful PBT (rapid) + metamorphic restart: generated histories on instance 1, directory images recovered by fresh instances, in-package snapshots compared"}
META["C07"] = {"engine": "P-persistence", "design_ref": "DESIGN.md §4 Engine P, §5 C07",
               "technique": "stateful property-based testing (rapid) with a recovery oracle: snapshot of the original instance restricted to persisted live holds vs. snapshot of a fresh instance started on a copy of the directory (twice)",
               "level_text": ("Exploration: generated histories, each followed by two real restarts on copies of the data directory; both directions compared (nothing missing, nothing resurrected), "
                              "deadlines within the stated tolerance. The outage is produced by letting instance 1's clock lag the wall clock."),
               "level_note": "Trusted: in-package snapshot; quiescence detection by polling the AOF channel queues; several genuine defects around re-locked/updated holds are listed as known findings and excluded by construction, which narrows the explored domain (stated in evidence)."}
ENGINES["V-election"] = {"path": "harness/server/c12_election_test.go, c12_voter_test.go", "props": ["C12"], "kind": "PBT (rapid): pure laws, acceptor-level state machine over real ArbiterManagers, and the real voter code over net.Pipe with every delivery/loss/restart chosen by the generated schedule"}
META["C12"] = {"engine": "V-election", "design_ref": "DESIGN.md §4 Engine V, §5 C12",
               "technique": "property-based testing (rapid) with owned message schedules: invariants over acceptor state after every delivered message, at most one commit majority, candidate choice vs. an independent position order; pure algebraic laws for CompareAofId/Format/Store",
               "level_text": ("Exploration of generated delivery orders, losses and restarts for 3..5 members and 2..3 candidates against the real handlers and the real voter code; "
                              "the schedule is part of the case, so failures replay exactly. The kill -9 trials of a real 3-process cluster named in the quantifier are not built."),
               "level_note": "Trusted: the harness network (net.Pipe ends) and its quiescence detection through the injected logger; announcements / voteSucced are not executed; four genuine election defects are listed as known findings and their triggers are excluded by construction."}
ENGINES["P-persistence"]["props"] = ["C07", "C08"]
META["C08"] = {"engine": "P-persistence", "design_ref": "DESIGN.md §4 Engine P, §5 C08",
               "technique": "fault injection by enumeration of truncation offsets over rapid-generated histories; metamorphic oracle (cut at byte o recovers like cut at the preceding record boundary) + second workload and second restart",
               "level_text": ("Fault enumeration over crash points of the newest append file and its value file: drawn offsets covering the header and all 64 residues in the quick tier, every byte offset of the file "
                              "for a quarter of the thorough cases (exhaustive per case, flagged in evidence). Each crash point costs two to four real restarts."),
               "level_note": "Trusted: truncation as the crash model (system-call boundary, no page-cache loss); in-package snapshot comparison; the C07 known findings are excluded by construction."}
ENGINES["P-persistence"]["props"] = ["C07", "C08", "C16"]
META["C16"] = {"engine": "P-persistence", "design_ref": "DESIGN.md §4 Engine P, §5 C16",
               "technique": "fault injection by enumeration of the compaction's file-system mutations (verif hook points copy the directory) over rapid-generated histories; metamorphic oracle: every crash image recovers (twice) to the state recovered from the pre-compaction image",
               "level_text": ("Fault enumeration: for each generated history every crash point of one compaction (all hook points after file-system mutations) is recovered twice and compared with the pre-compaction recovery. "
                              "The enumeration is complete for the mutations of that compaction, not for compactions racing with appends."),
               "level_note": "Trusted: hook placement (add-only verifYield calls in the rewrite path), directory copy inside the hook callback as crash image, in-package snapshot; two genuine crash windows are listed as known findings and skipped."}
ENGINES["W-wire"] = {"path": "harness/server/c13_engine_test.go, c13_wire_test.go, c13_super_test.go", "props": ["C13"], "kind": "structured + mutational PBT (rapid) and native fuzzing of client byte streams through Server.handle over scripted fake connections, process-isolated; bystander-connection oracle"}
META["C13"] = {"engine": "W-wire", "design_ref": "DESIGN.md §4 Engine W, §5 C13",
               "technique": "grammar-based and mutational property testing (rapid) plus coverage-guided native fuzzing (thorough tier) of byte streams; oracle: no panic / process death, bystander connection unaffected, handler terminates",
               "level_text": ("Exploration: generated binary frames with arbitrary fields and value frames of every short length, nested PIPELINE/EXECUTE, lying lengths, every text command with arity sweeps and hostile "
                              "arguments, then byte-level mutation and arbitrary splits into reads; each case on a fresh in-process leader in a child process so that deaths of background goroutines and Go fatal errors "
                              "are observed and keyed. Sampling, not proof."),
               "level_note": "Trusted: the scripted fake net.Conn instead of TCP; domain filter for administrative commands that legitimately stop or reconfigure the server (counted); waits are ended with the server's own forced time-out; 20 genuine crashes were found and repaired by fix: commits (listed as fixed in known_findings.json)."}
ENGINES["D-disconnect"] = {"path": "harness/server/c18_engine_test.go, c18_test.go", "props": ["C18"], "kind": "stateful PBT (rapid): generated connection life cycles (INIT, wills, requests, ways of ending, clock ticks) through the real Server.handle over in-memory connections, virtual clock; metamorphic reference run for wills, census and routing oracles"}
META["C18"] = {"engine": "D-disconnect", "design_ref": "DESIGN.md §4 Engine D, §5 C18",
               "technique": "stateful property-based testing (rapid) with a metamorphic reference run (wills replaced by the same commands sent once after the close), census after drain and reply-routing validity over every received frame",
               "level_text": ("Exploration: tens of thousands (quick) to hundreds of thousands (thorough) of generated connection life cycles per run on a fresh leader each; the real handler goroutines are serialised by the harness "
                              "(it acts only when every handler is parked), so cases replay exactly; true write/close races on sockets are not explored."),
               "level_note": "Trusted: in-memory net.Conn instead of TCP, in-package detection of parked handlers, the reference semantics of a will (same command sent by a live connection when the dying handler has finished), strict reading of 'delivered to a reconnected client'. Text-protocol wills are a listed known finding (never executed)."}
ENGINES["K-ack"] = {"path": "harness/server/c11_engine_test.go, c11_single_test.go, c11_cluster_test.go", "props": ["C11"], "kind": "stateful PBT (rapid): single leader with harness-parked log writers and injected write errors; leader + 1..2 in-process followers behind a proxy that stalls, negates or drops ack frames; reply-driven ledger vs. in-package snapshot, log-file look-up in the reply callback"}
META["C11"] = {"engine": "K-ack", "design_ref": "DESIGN.md §4 Engines P/N/B as adapted, §5 C11",
               "technique": "stateful property-based testing (rapid) with fault injection (write errors, delayed / negative / lost follower acknowledgements, demotion, ack-wait time-outs) against a reply-driven reference ledger and file / proxy evidence at the moment of every SUCCED",
               "level_text": ("Exploration: tens of thousands of generated histories per run on a fresh leader (and 1-2 followers) each; the harness owns the clock and parks the log writers, so the single-node layer is "
                              "deterministic and replays exactly; the cluster layer owns the ack frames but not the goroutine schedule."),
               "level_note": "Trusted: write errors modelled by closing the file under the writer; the proxy's frame parser; lower-bound quorum computation; sequential by construction (no ack-handler vs. unlock races). Four genuine defects are listed as known findings, three were repaired."}
ENGINES["N-cluster"] = {"path": "harness/server/c09_ring_test.go, c09_engine_test.go, c09_cluster_test.go, c09_replay_test.go, c10_leader_only_test.go, c10_expiry_test.go, c10_replay_test.go", "props": ["C09", "C10"], "kind": "model-based PBT (rapid) of the replication ring buffer; stateful PBT of leader + followers as in-process instances on loopback sockets behind a harness proxy that cuts the replication stream at drawn byte offsets, stalls and drops it; differential (follower front end vs. leader) for client requests"}
META["C09"] = {"engine": "N-cluster", "design_ref": "DESIGN.md §4 Engine N, §5 C09",
               "technique": "model-based property testing (rapid) of the ring buffer against a sequence model, and stateful property testing with byte-offset fault injection of leader/follower clusters: follower snapshot and follower log vs. the leader's persisted state and complete log at quiescence",
               "level_text": ("Exploration: millions of ring programs (pure, reproducible) and hundreds (quick) to thousands (thorough) of generated cluster cases with connection cuts at drawn byte offsets of both phases, joins with empty and stale directories, "
                              "rotations and small rings. Inputs and fault plans replay, goroutine schedules do not: a failing cluster case is executed again on fresh clusters and reported only if the same failure shows again; otherwise it is counted as an unreproduced anomaly."),
               "level_note": "Trusted: the harness proxy and its stream parser, quiescence detection by inspecting the channels (WaitFlushAofChannel is not a barrier), signatures that attribute a divergence to a listed known finding. Five replication races were repaired in /repo, four findings (compaction content, index hole, transfer vs. compaction) are listed as known."}
META["C10"] = {"engine": "N-cluster", "design_ref": "DESIGN.md §4 Engine N, §5 C10",
               "technique": "differential property testing (rapid): generated request scripts sent to the follower's front end (binary and text) vs. the same requests sent to the leader of an identical cluster; snapshot invariance of the non-leader under a stalled stream; follower clock advanced past replicated deadlines",
               "level_text": ("Exploration: generated scripts with role changes forced between two requests of one connection; every relayed reply must equal the leader's reply or be a refusal, a non-leader's own state must not change. "
                              "Real sockets and goroutines: failing scripts are re-executed and reported only when the failure repeats."),
               "level_note": "Trusted: roles forced through SLock.updateState on a slaveof follower (no real election), the comparison cluster built from the same preload. Known: a non-leader answers concurrent-check probes from its own view; a follower never drops a replicated hold on its own clock (the 300 s bound is not reached)."}
ENGINES["R-real-time"] = {"path": "harness/server/er_engine_test.go, er_oracle_test.go, er_gen_test.go, er_disp_test.go", "props": ["C05", "C06"], "kind": "PBT (rapid) of short real-time scripts against a leader with its own dispatcher goroutines and millisecond wheels; stamped requests and replies, sound early bounds, load-aware late bounds, confirm-by-re-execution"}
for _p in ("C05", "C06"):
    META[_p] = dict(META[_p])
    META[_p]["engine"] = "A-virtual-clock + R-real-time"
    META[_p]["technique"] = META[_p]["technique"] + "; plus property-based testing of generated real-time scripts (millisecond flags, the server's own timer goroutines) with stamped replies: never early, late only when the measured scheduling delay rules the machine out; plus generated clock schedules (single seconds and jumps up to 70 s) for the server's real sweep dispatcher goroutines under a harness-owned clock, checked against a reply-driven ledger"
    META[_p]["level_text"] = META[_p]["level_text"] + " Engine R adds hundreds (quick) to thousands (thorough) of real-time cases of a few seconds each; schedules are real, so a failure is reported only if it recurs on re-execution."
ENGINES["T-text-kv"] = {"path": "harness/server/c15t_engine_test.go, c15t_model_test.go, c15t_gen_test.go, c15t_script_test.go", "props": ["C15"], "kind": "model-based PBT (rapid): generated Redis-style command sequences through the real text front end under a virtual clock vs. a reference key-value store kept as a set of hypotheses"}
META["C15"] = dict(META["C15"])
META["C15"]["engine"] = "A-virtual-clock + V-value-pure + T-text-kv"
META["C15"]["technique"] = "differential property testing (rapid) against a sequential value interpreter, pure and through generated lock histories; model-based property testing of the Redis-style text commands against a reference key-value store"
META["C15"]["level_text"] = META["C15"]["level_text"].replace(" The Redis-style text commands of the statement are not yet covered by this check.", "") + " (c) generated Redis-style command sequences over a small key set through the real text front end, every reply and a full read-back compared with a reference key-value store (engine T)."
META["C03"] = dict(META["C03"])
META["C03"]["engine"] = "A-virtual-clock + B-controlled-schedules + D-disconnect (text replies)"
META["C03"]["technique"] = META["C03"]["technique"] + "; plus stateful property-based testing of text connections through the real Server.handle (one reply per command, its own reply, notices never delivered as replies)"
META["C10"] = dict(META["C10"])
META["C10"]["engine"] = "N-cluster + B-controlled-schedules"
META["C10"]["technique"] = META["C10"]["technique"] + "; plus property-based testing of owned schedules (engine B): client requests parked in front of the shard mutex across the role change, lock-table invariance afterwards"
_NOT_BUILT = "check not built yet in this session (planned in DESIGN.md); not claimed rather than faked"
NOT_APPLICABLE = {f"C{i:02d}": _NOT_BUILT for i in range(1, 21)}
