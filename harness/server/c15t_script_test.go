package server

// Debugging aid of engine T: VERIF_C15T_SCRIPT="0 SET a hello EX 5;1 GET a;tick 3;0 GET a" runs the
// commands against a fresh leader and prints the transcript (no oracle). Arguments are Go-unquoted when
// they start with a double quote. Without the variable the test does nothing.

import (
	"fmt"
	"os"
	"strconv"
	"strings"
	"testing"
)

func TestC15_TextScript(t *testing.T) {
	script := os.Getenv("VERIF_C15T_SCRIPT")
	if script == "" {
		return
	}
	c := &t15Case{Keys: []string{"-"}, Timeouts: []int{-1, -1}}
	if v := os.Getenv("VERIF_C15T_TIMEOUTS"); v != "" {
		c.Timeouts = nil
		for _, f := range strings.Split(v, ",") {
			n, _ := strconv.Atoi(f)
			c.Timeouts = append(c.Timeouts, n)
		}
	}
	e, err := t15NewEnv(c)
	if err != nil {
		t.Fatal(err)
	}
	defer e.close()
	for i, to := range c.Timeouts {
		if to >= 0 {
			r, _, err := e.roundTrip(i, "", [][]byte{[]byte("TIMEOUT"), []byte("SET"), []byte(strconv.Itoa(to))})
			fmt.Printf("c%d TIMEOUT SET %d -> %q %v\n", i, to, r, err)
		}
	}
	for _, line := range strings.Split(script, ";") {
		f := strings.Fields(strings.TrimSpace(line))
		if len(f) == 0 {
			continue
		}
		if f[0] == "tick" {
			n, _ := strconv.Atoi(f[1])
			for i := 0; i < n; i++ {
				e.second()
			}
			fmt.Printf("[t+%d] tick %d\n", e.now-t15Epoch, n)
			continue
		}
		ci, _ := strconv.Atoi(f[0])
		var args [][]byte
		for _, a := range f[1:] {
			if strings.HasPrefix(a, "\"") {
				if u, err := strconv.Unquote(a); err == nil {
					a = u
				}
			}
			args = append(args, []byte(a))
		}
		key := ""
		if len(args) > 1 {
			key = string(args[1])
		}
		r, w, err := e.roundTrip(ci, key, args)
		fmt.Printf("[t+%d] c%d %q -> %q waited=%d err=%v\n", e.now-t15Epoch, ci, f[1:], r, w, err)
		if err != nil {
			return
		}
	}
}
