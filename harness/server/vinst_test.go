package server

// Shared helpers: in-process slock instances for the harness engines.

import (
	"fmt"
	"os"
	"path/filepath"
	"sync"
	"sync/atomic"
	"time"

	"github.com/hhkbp2/go-logging"
)

type vInstOpts struct {
	DataDir           string
	DBConcurrent      uint
	DBFastKeyCount    uint
	DBLockAofTime     uint
	AofFileBufferSize uint
	AofFileRewriteSize uint
	AofRingBufferSize uint
	AofRingBufferMaxSize uint
	AofAckMode        uint
	SlaveOf           string
	Port              uint
	NoCheckLoop       bool // H1: no wall-clock sweep goroutines, harness owns LockDB.currentTime
}

type vInst struct {
	slock  *SLock
	server *Server
	dir    string
	opts   vInstOpts
}

var vInstSeq uint64
var vInstMu sync.Mutex // instance creation touches package globals (Config, defaultServerProtocol): serialise it
var vNoCheckLoop int32

var vRewriteStarted, vRewriteEnded, vRotated int64 // vRotated: rotations of a leader's append file; each starts one compaction goroutine
var vRewriteBase int64 // largest (ended - rotated) seen: the number of compactions that were not started by a rotation (start-ups)
var vYieldExtra atomic.Value // func(point int): additional handler installed by an engine (crash images, scheduler)

func vSetYieldExtra(f func(point int)) { vYieldExtra.Store(f) }

func init() {
	vYieldExtra.Store(func(int) {})
	VerifYield = func(point int) {
		switch point {
		case verifPointAofRewrite:
			atomic.AddInt64(&vRewriteStarted, 1)
		case verifPointAofRewrite + 9:
			en := atomic.AddInt64(&vRewriteEnded, 1)
			for {
				b, d := atomic.LoadInt64(&vRewriteBase), en-atomic.LoadInt64(&vRotated)
				if d <= b || atomic.CompareAndSwapInt64(&vRewriteBase, b, d) {
					break
				}
			}
		case verifPointAofRewrite + 7:
			atomic.AddInt64(&vRotated, 1)
		}
		vYieldExtra.Load().(func(int))(point)
	}
	VerifHook = func(point int) bool {
		if point == verifPointNoCheckLoop {
			return atomic.LoadInt32(&vNoCheckLoop) != 0
		}
		return false
	}
}

func vScratchDir(prefix string) string {
	base := os.Getenv("VERIF_DATADIR")
	if base == "" {
		base = os.TempDir()
	}
	d := filepath.Join(base, fmt.Sprintf("%s-%d-%d", prefix, os.Getpid(), atomic.AddUint64(&vInstSeq, 1)))
	_ = os.MkdirAll(d, 0755)
	return d
}

func vQuietLogger() logging.Logger {
	logger := logging.GetLogger("verif")
	_ = logger.SetLevel(logging.LevelCritical)
	return logger
}

func vConfig(o vInstOpts) *ServerConfig {
	def := func(v, d uint) uint {
		if v == 0 {
			return d
		}
		return v
	}
	return &ServerConfig{
		Bind: "127.0.0.1", Port: def(o.Port, 5658), Log: "-", LogLevel: "ERROR", LogRotatingSize: 67108864, LogBackupCount: 5,
		LogBufferFlushTime: 1, DataDir: o.DataDir, DBFastKeyCount: def(o.DBFastKeyCount, 64), DBConcurrent: def(o.DBConcurrent, 2),
		DBLockAofTime: o.DBLockAofTime, DBLockAofParcentTime: 0.3, AofQueueSize: 4096, AofFileRewriteSize: def(o.AofFileRewriteSize, 67174400),
		AofFileBufferSize: def(o.AofFileBufferSize, 4096), AofRingBufferSize: def(o.AofRingBufferSize, 65536),
		AofRingBufferMaxSize: def(o.AofRingBufferMaxSize, 1048576), AofAckMode: o.AofAckMode, SlaveOf: o.SlaveOf,
	}
}

// vNewInst creates and initialises an instance (leader unless SlaveOf is set).
func vNewInst(o vInstOpts) (*vInst, error) {
	vInstMu.Lock()
	defer vInstMu.Unlock()
	if o.DataDir == "" {
		o.DataDir = vScratchDir("inst")
	}
	if o.NoCheckLoop {
		atomic.StoreInt32(&vNoCheckLoop, 1)
	} else {
		atomic.StoreInt32(&vNoCheckLoop, 0)
	}
	cfg := vConfig(o)
	slock := NewSLock(cfg, vQuietLogger())
	server := NewServer(slock)
	if err := slock.Init(server); err != nil {
		return nil, err
	}
	return &vInst{slock, server, o.DataDir, o}, nil
}

// vClose shuts the instance down through the same steps as SLock.PrepareClose/Close but without
// the one second sleep: instead it waits for every AOF channel goroutine to exit before the AOF file
// is closed (a late record would otherwise re-open a file and start a rewrite goroutine that outlives
// the instance and reads the package-global Config of the next one). A teardown that does not finish
// within a few seconds abandons the instance; it is never a verdict.
func (in *vInst) vClose(wait bool, removeDir bool) {
	done := make(chan struct{})
	go func() {
		defer close(done)
		in.vCloseSteps(wait)
	}()
	select {
	case <-done:
		if removeDir {
			_ = os.RemoveAll(in.dir)
		}
	case <-time.After(5 * time.Second):
		atomic.AddInt64(&vAbandoned, 1)
	}
}

var vAbandoned int64

func (in *vInst) vCloseSteps(wait bool) {
	s := in.slock
	if s.arbiterManager != nil {
		s.arbiterManager.isClosing = true
		_ = s.arbiterManager.Close()
	}
	_ = s.aof.WaitFlushAofChannel()
	s.glock.Lock()
	s.state = STATE_CLOSE
	var channels []*AofChannel
	for _, db := range s.dbs {
		if db != nil {
			channels = append(channels, db.aofChannels...)
			db.status = STATE_CLOSE // LockDB.Close only acts on a DB already marked closed
			db.Close()
		}
	}
	s.glock.Unlock()
	if wait {
		time.Sleep(1100 * time.Millisecond)
	}
	for _, ch := range channels {
		if ch != nil {
			<-ch.closedWaiter
		}
	}
	s.aof.Close()
	s.replicationManager.Close()
	if s.subscribeManager != nil {
		s.subscribeManager.Close()
	}
	s.admin.Close()
	s.glock.Lock()
	for i, db := range s.dbs {
		if db != nil {
			s.dbs[i] = nil
		}
	}
	s.glock.Unlock()
	s.server = nil
}

// vWaitRewrite waits until every compaction that was started has returned (hook points 5 / 14 count
// entries and exits of Aof.rewriteAofFiles) and, if expectAfter >= 0, until at least one finished after
// that many had finished before. false = watchdog expired (inconclusive, never a verdict).
func vWaitRewrite(aof *Aof) bool { return vWaitRewriteAfter(-1) }

// vWaitRewriteRotations additionally waits for the compaction of every rotation counted so far (size-triggered rotations
// start theirs in a goroutine that may not have reached its entry hook yet). Only for engines whose rotations all go
// through Aof.RewriteAofFile(true) on a live instance.
func vWaitRewriteRotations() bool { return vWaitRewriteAfter(-2) }

func vWaitRewriteAfter(endedBefore int64) bool {
	deadline := time.Now().Add(10 * time.Second)
	for time.Now().Before(deadline) {
		// a rotation (also a size-triggered one inside a record write) starts its compaction in a goroutine that may not
		// have reached its entry hook yet: every rotation counted so far must have been followed by a finished compaction
		// (start-up compactions add to started/ended without a rotation: vRewriteBase tracks how many of those there were)
		st, en, ro := atomic.LoadInt64(&vRewriteStarted), atomic.LoadInt64(&vRewriteEnded), atomic.LoadInt64(&vRotated)
		if st == en && (endedBefore != -2 || en-ro >= atomic.LoadInt64(&vRewriteBase)) && (endedBefore < 0 || en > endedBefore) {
			return true
		}
		time.Sleep(100 * time.Microsecond)
	}
	return false
}

func vCopyDir(src, dst string) error {
	if err := os.MkdirAll(dst, 0755); err != nil {
		return err
	}
	ents, err := os.ReadDir(src)
	if err != nil {
		return err
	}
	for _, e := range ents {
		if e.IsDir() {
			continue
		}
		b, err := os.ReadFile(filepath.Join(src, e.Name()))
		if err != nil {
			if os.IsNotExist(err) {
				continue
			}
			return err
		}
		if err := os.WriteFile(filepath.Join(dst, e.Name()), b, 0644); err != nil {
			return err
		}
	}
	return nil
}

// vAofIdle polls until the persistence queue has really drained: every AOF channel queue empty and no
// channel goroutine active, observed twice in a row (Aof.WaitFlushAofChannel alone can return while a
// channel is still between pulling a record and writing it). false = watchdog expired.
func vAofIdle(aof *Aof) bool {
	deadline := time.Now().Add(10 * time.Second)
	stable := 0
	for time.Now().Before(deadline) {
		_ = aof.WaitFlushAofChannel()
		busy := atomic.LoadUint32(&aof.channelActiveCount) != 0
		aof.glock.Lock()
		chans := append([]*AofChannel{}, aof.channels...)
		aof.glock.Unlock()
		for _, ch := range chans {
			ch.queueGlock.Lock()
			if ch.queueCount != 0 || !ch.queuePulled {
				busy = true
			}
			ch.queueGlock.Unlock()
		}
		if !busy {
			stable++
			if stable >= 2 {
				return true
			}
		} else {
			stable = 0
		}
		time.Sleep(50 * time.Microsecond)
	}
	return false
}
