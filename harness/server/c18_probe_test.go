package server

import (
	"fmt"
	"os"
	"runtime/debug"
	"testing"
)

func TestC18_Probe(t *testing.T) {
	which := os.Getenv("D18_PROBE")
	var c *d18Case
	switch which {
	case "recurse":
		debug.SetMaxStack(32 << 20)
		c = &d18Case{Steps: []d18Step{
			{K: "open", C: 0},
			{K: "send", C: 0, Cmds: []d18Cmd{{Op: "init", Cid: 0}, {Op: "will_lock", Key: 0, Id: 1, T: 0, E: 10}}},
			{K: "close", C: 0, How: "eof"},
		}}
	case "textwill":
		c = &d18Case{Steps: []d18Step{
			{K: "open", C: 0, Text: true},
			{K: "send", C: 0, Cmds: []d18Cmd{{Op: "will_lock", Key: 0, Id: 1, T: 0, E: 10}}},
			{K: "close", C: 0, How: "eof"},
		}}
	default:
		c = &d18Case{Steps: []d18Step{
			{K: "open", C: 0},
			{K: "open", C: 1, Text: true},
			{K: "send", C: 0, Cmds: []d18Cmd{{Op: "lock", Key: 0, Id: 1, T: 0, E: 10}, {Op: "will_unlock", Key: 0, Id: 1}, {Op: "will_lock", Key: 1, Id: 2, E: 5, Rc: 2}}},
			{K: "send", C: 1, Cmds: []d18Cmd{{Op: "lock", Key: 0, Id: 3, T: 5, E: 10}}},
			{K: "tick", N: 1},
			{K: "close", C: 0, How: "server", Twice: true},
			{K: "tick", N: 3},
		}}
	}
	info, viol, err := d18Check(c, which == "recurse")
	fmt.Printf("info=%+v\nerr=%v\n", info, err)
	if viol != nil {
		fmt.Printf("VIOL key=%s\n%s\n", viol.Key, viol.Msg)
	}
}
