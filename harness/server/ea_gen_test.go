package server

// Engine A generator, rapid properties and replay for C01..C06, C15(b), C17.

import (
	"fmt"
	"sort"
	"testing"

	"pgregory.net/rapid"
)

type aProfile struct {
	prop      string
	values    int // percentage of lock/unlock requests carrying a value operation
	timers    int // weight of tick operations (percent of all ops)
	bursts    bool
	prioBias  int // percentage of lock requests with the priority flag
	updBias   int // percentage of lock requests with the update flag
	longTimes bool
	persist   bool // engine P: Timeout 0, expiries far from the restart instant, aof flags frequent, short ticks only
}

var aProfiles = map[string]aProfile{
	"C01": {prop: "C01", values: 5, timers: 12, bursts: true, prioBias: 8, updBias: 6},
	"C02": {prop: "C02", values: 5, timers: 8, bursts: true, prioBias: 6, updBias: 6},
	"C03": {prop: "C03", values: 5, timers: 22, bursts: false, prioBias: 10, updBias: 10},
	"C04": {prop: "C04", values: 3, timers: 18, bursts: true, prioBias: 25, updBias: 4},
	"C05": {prop: "C05", values: 0, timers: 35, bursts: true, prioBias: 8, updBias: 4, longTimes: true},
	"C06": {prop: "C06", values: 0, timers: 35, bursts: false, prioBias: 5, updBias: 22, longTimes: true},
	"C15": {prop: "C15", values: 70, timers: 8, bursts: false, prioBias: 3, updBias: 15},
	"C17": {prop: "C17", values: 10, timers: 22, bursts: true, prioBias: 10, updBias: 8},
}

const pKeyShortUpd = "C07:expired-terms-record-skipped-at-load"

var pKnownShortUpd = vIsKnownSuffix("expired-terms-record-skipped-at-load")
var pShortUpdExcluded int

const pKeyLateDepth = "C07:depth-lost-when-persisted-after-relock"

var pKnownLateDepth = vIsKnownSuffix("depth-lost-when-persisted-after-relock")
var pLateDepthExcluded int

const pKeyUpdCount = "C07:superseded-update-record-dropped-by-compaction"

var pKnownUpdCount = vIsKnownSuffix("superseded-update-record-dropped-by-compaction")
var pUpdCountExcluded int

const pKeyLateOrder = "C07:delayed-persistence-logs-later-terms-before-earlier-grant"

var pKnownLateOrder = vIsKnownSuffix("delayed-persistence-logs-later-terms-before-earlier-grant")
var pLateOrderExcluded int

const pKeyLinger = "C07:released-value-lingers-when-log-is-replayed"

var pKnownLinger = vIsKnownSuffix("released-value-lingers-when-log-is-replayed")
var pLingerExcluded int

const pKeyOldest = "C07:live-hold-refused-at-replay-after-older-holder-expired"

var pKnownOldest = vIsKnownSuffix("live-hold-refused-at-replay-after-older-holder-expired")
var pOldestExcluded int

const pKeyUpdCreate = "C07:compaction-drops-creating-record-with-update-flag"

var pKnownUpdCreate = vIsKnownSuffix("compaction-drops-creating-record-with-update-flag")
var pUpdCreateExcluded int

func pct(t *rapid.T, label string) int { return rapid.IntRange(0, 99).Draw(t, label) }

func aSortedKeys(m *aMonitor) []*mKey {
	ids := make([]string, 0, len(m.keys))
	for id := range m.keys {
		ids = append(ids, id)
	}
	sort.Strings(ids)
	out := make([]*mKey, 0, len(ids))
	for _, id := range ids {
		out = append(out, m.keys[id])
	}
	return out
}

func idIndex(id [16]byte) int { return (int(id[0]) | int(id[1])<<8 | int(id[2])<<16) - 1 }
func keyIndex(k [16]byte) int { return (int(k[0]) | int(k[1])<<8) - 1 }

func aGenTimes(t *rapid.T, p aProfile, label string, allowZero bool) (int, int) {
	// returns (value, minuteFlag?1:0)
	r := pct(t, label+"Class")
	switch {
	case allowZero && r < 30:
		return 0, 0
	case r < 70:
		return rapid.SampledFrom([]int{1, 1, 2, 2, 3, 5}).Draw(t, label+"Short"), 0
	case r < 90:
		return rapid.SampledFrom([]int{8, 9, 10, 20, 36, 37, 40, 70}).Draw(t, label+"Mid"), 0
	case r < 95 && p.longTimes:
		return rapid.SampledFrom([]int{1, 1, 2, 2, 3, 1092, 1093, 2000, 65535}).Draw(t, label+"Min"), 1
	case r < 97:
		return rapid.SampledFrom([]int{300, 3600, 65535}).Draw(t, label+"Long"), 0
	}
	return rapid.IntRange(1, 65535).Draw(t, label+"Any"), 0
}

func aGenValue(t *rapid.T, k *mKey, keyIdx int) *aVal {
	// keys are typed per index so that only type-compatible operations meet: 0 bytes, 1 number, 2 array, 3 bytes
	small := func(label string) []byte {
		return rapid.SliceOfN(rapid.Byte(), 0, 6).Draw(t, label)
	}
	v := &aVal{}
	switch keyIdx % 3 {
	case 1:
		v.Op = rapid.SampledFrom([]string{"incr", "incr", "incr", "unset", "set"}).Draw(t, "numOp")
		if v.Op == "incr" {
			v.N = rapid.SampledFrom([]int64{1, -1, 2, 100, -100, 1 << 62, -(1 << 62), 9223372036854775807}).Draw(t, "incrBy")
		} else if v.Op == "set" {
			// a number register may be set from a payload of 1..8 bytes (read little-endian, zero-extended)
			v.B = rapid.SliceOfN(rapid.Byte(), 1, 8).Draw(t, "numSet")
		}
	case 2:
		v.Op = rapid.SampledFrom([]string{"push", "push", "pop", "unset"}).Draw(t, "arrOp")
		if v.Op == "push" {
			v.B = rapid.SliceOfN(rapid.Byte(), 1, 5).Draw(t, "elem")
		} else if v.Op == "pop" {
			v.N = int64(rapid.IntRange(0, 4).Draw(t, "popN"))
		}
	default:
		v.Op = rapid.SampledFrom([]string{"set", "set", "append", "append", "shift", "unset"}).Draw(t, "bytesOp")
		switch v.Op {
		case "set", "append":
			v.B = small("payload")
		case "shift":
			// within the current length (shifting beyond the length is exercised by the pure differential)
			max := 0
			if k != nil && k.val != nil {
				max = 1 << 30
				for _, c := range k.val.cands {
					if c == nil {
						max = 0
					} else if len(c.Payload) < max {
						max = len(c.Payload)
					}
				}
			}
			v.N = int64(rapid.IntRange(0, max).Draw(t, "shiftN"))
		}
	}
	if pct(t, "valProp") < 10 && (v.Op == "set" || v.Op == "append" || v.Op == "push") {
		v.P = rapid.SliceOfN(rapid.Byte(), 0, 4).Draw(t, "prop")
	}
	if pct(t, "valFL") < 4 {
		v.FL = true
	}
	return v
}

// aGenOps draws the next operation(s). It looks at the monitor's ledger only to bias towards
// interesting targets; every choice is a rapid draw.
func aGenOps(t *rapid.T, e *aEnv, p aProfile, fresh *int) []aOp {
	m := e.mon
	keys := aSortedKeys(m)
	var busy []*mKey
	for _, k := range keys {
		if len(k.holders) > 0 || len(k.waiters) > 0 {
			busy = append(busy, k)
		}
	}
	r := pct(t, "kind")
	if p.persist && r < p.timers {
		if e.now-aEpoch >= 10 {
			r = p.timers // the virtual clock must stay behind the wall clock
		} else {
			return []aOp{{K: "tick", N: rapid.SampledFrom([]int{1, 1, 2, 3}).Draw(t, "ptickN"), X: pct(t, "tickOrder") < 50}}
		}
	}
	if r < p.timers {
		n := rapid.SampledFrom([]int{1, 1, 1, 1, 2, 2, 3, 5, 9, 17, 40, 61, 130}).Draw(t, "tickN")
		if p.longTimes && pct(t, "tickLong") < 3 {
			n = rapid.SampledFrom([]int{600, 3700}).Draw(t, "tickLongN")
		}
		return []aOp{{K: "tick", N: n, J: pct(t, "tickJump") < 20, X: pct(t, "tickOrder") < 50}}
	}
	if r >= 98 {
		return []aOp{{K: "collect"}}
	}
	// target key
	db, key := 0, 0
	var tk *mKey
	if len(busy) > 0 && pct(t, "keyBusy") < 75 {
		tk = busy[rapid.IntRange(0, len(busy)-1).Draw(t, "busyKey")]
		db, key = tk.db, keyIndex(tk.key)
	} else {
		if pct(t, "db1") < 12 {
			db = 1
		}
		key = rapid.IntRange(0, 3).Draw(t, "key")
		tk = m.keys[fmt.Sprintf("%d/%x", db, aKey(key))]
	}
	if p.persist && pKnownLinger && tk != nil && len(tk.holders) == 0 && tk.val != nil {
		// known finding C07:released-value-lingers-when-log-is-replayed: the value of a key nobody holds stays until
		// the key's last lock object is swept; the replay runs LOCK, UNLOCK, LOCK without a sweep in between, so a
		// later hold inherits the value of a released one. While listed, a key that became free after it carried a
		// value is not used again: the request goes to a key never used before (same value type).
		for _, c := range tk.val.cands {
			if c != nil {
				*fresh++
				key = key%3 + 3*(1+*fresh%20000)
				tk = m.keys[fmt.Sprintf("%d/%x", db, aKey(key))]
				pLingerExcluded++
				break
			}
		}
	}
	client := rapid.IntRange(0, len(e.clients)-1).Draw(t, "client")
	pickId := func(label string, holderPct, waiterPct int) int {
		x := pct(t, label)
		if tk != nil && len(tk.holders) > 0 && x < holderPct {
			return idIndex(tk.holders[rapid.IntRange(0, len(tk.holders)-1).Draw(t, label+"H")].id)
		}
		if tk != nil && len(tk.waiters) > 0 && x < holderPct+waiterPct {
			return idIndex(tk.waiters[rapid.IntRange(0, len(tk.waiters)-1).Draw(t, label+"W")].id)
		}
		if tk != nil && len(tk.released) > 0 && x >= 82 && x < 90 {
			return idIndex(tk.released[rapid.IntRange(0, len(tk.released)-1).Draw(t, label+"Rel")])
		}
		if x < 90 {
			return rapid.IntRange(0, 5).Draw(t, label+"Pool")
		}
		*fresh++
		return 100 + *fresh
	}
	genCount := func() int {
		x := pct(t, "countClass")
		switch {
		case x < 38:
			return 0
		case x < 60:
			return 1
		case x < 80:
			return rapid.IntRange(2, 4).Draw(t, "countSmall")
		case x < 88:
			return 0xffff
		case x < 94:
			return rapid.IntRange(5, 300).Draw(t, "countMid")
		}
		return rapid.IntRange(0, 65535).Draw(t, "countAny")
	}
	genRcount := func() int {
		x := pct(t, "rcountClass")
		switch {
		case x < 45:
			return 0
		case x < 80:
			return rapid.IntRange(1, 3).Draw(t, "rcountSmall")
		case x < 88:
			return rapid.SampledFrom([]int{0xfe, 0xff}).Draw(t, "rcountMax")
		}
		return rapid.IntRange(0, 255).Draw(t, "rcountAny")
	}
	if r < p.timers+(98-p.timers)*58/100 {
		// LOCK
		if p.longTimes && pct(t, "longExpiry") < 3 {
			return aGenLongExpiryScenario(t, e, db, key, fresh)
		}
		if p.bursts && pct(t, "burst") < 3 {
			if x := pct(t, "burstKind"); x < 20 {
				return aGenReentrantBurst(t, e, db, key, fresh)
			} else if x < 45 {
				return aGenLongWaitScenario(t, e, db, key, fresh)
			} else if x < 60 {
				return aGenPrioDrainScenario(t, e, db, key, fresh)
			}
			return aGenBurst(t, e, db, key, fresh)
		}
		op := aOp{K: "lock", C: client, Db: db, Key: key}
		op.Id = pickId("lockId", 30, 0)
		if tk != nil {
			// domain restriction: a LockId is not used for a new lock request while a request bearing it is
			// still queued on that key (the server would turn the queued one into a second hold of the same id,
			// a situation none of the properties describes)
			for _, w := range tk.waiters {
				if idIndex(w.id) == op.Id {
					*fresh++
					op.Id = 100 + *fresh
					break
				}
			}
		}
		op.Cnt, op.Rc = genCount(), genRcount()
		tv, tmin := aGenTimes(t, p, "timeout", true)
		op.T = tv
		if tmin == 1 {
			op.TF |= tfMINUTE
		}
		ev, emin := aGenTimes(t, p, "expried", false)
		if pct(t, "zeroExpried") < 4 {
			ev = 0
		}
		op.E = ev
		if emin == 1 {
			op.EF |= efMINUTE
		}
		if pct(t, "unlimited") < 5 && op.E > 0 {
			op.EF |= efUNLIMITED
			if op.E == 0xffff {
				op.E = 0xfffe // (unlimited, 0xffff) is an undocumented "keep the current terms" value; excluded
			}
		}
		if x := pct(t, "aofFlags"); x < 12 {
			op.EF |= rapid.SampledFrom([]int{0x0100, 0x0200, 0x1000}).Draw(t, "aofFlag")
		}
		if pct(t, "prio") < p.prioBias {
			op.TF |= tfPRIO
			op.Rc = rapid.SampledFrom([]int{0, 1, 1, 2, 3, 9, 255}).Draw(t, "priority")
		}
		if pct(t, "wwu") < 3 {
			op.TF |= tfWWU
		}
		x := pct(t, "lockFlags")
		switch {
		case x < p.updBias:
			op.F |= fUPDATE
		case x < p.updBias+6:
			op.F |= fSHOW
		case x < p.updBias+9:
			op.F |= fSHOW | fUPDATE
		case x < p.updBias+13:
			op.F |= fCONCHECK
		}
		if tk != nil && op.F&(fUPDATE|fSHOW|fCONCHECK) == 0 {
			if h := tk.holder(aLockId(op.Id)); h != nil && pct(t, "reentrantBias") < 65 {
				// a re-lock of a live hold: make it succeed often (Rcount at or above the current depth)
				op.TF &^= tfPRIO
				op.Rc = rapid.SampledFrom([]int{h.depth, h.depth, h.depth + 1, 0xff, h.depth - 1}).Draw(t, "reentrantRc")
				if op.Rc < 0 {
					op.Rc = 0
				}
				if op.Rc > 0xff {
					op.Rc = 0xff
				}
				if op.E == 0 {
					op.E = 5
				}
			}
		}
		if pct(t, "lockVal") < p.values {
			op.V = aGenValue(t, tk, key)
		}
		if p.persist && op.V != nil {
			// persistence checks follow the value attached when a hold is created; value operations on re-locks,
			// updates and unlocks of persisted holds are left to C15 (their persistence is not compared)
			if tk != nil && len(tk.holders) > 0 {
				op.V = nil
			} else if op.V.Op != "set" && op.V.Op != "push" && op.V.Op != "incr" {
				op.V = nil
			} else {
				op.V.FL = false
				if op.V.Op == "set" && key%3 != 1 && pct(t, "bigValue") < 12 {
					// a value larger than the value file's write / read buffer (aof_file_buffer_size*64 bytes: 4 KiB with the
					// smallest buffer), or several that add up to more than it
					op.V.L = rapid.SampledFrom([]int{1500, 3000, 4090, 4093, 4097, 5000, 9000}).Draw(t, "bigValueLen")
				}
			}
		}
		if p.persist {
			// nothing may expire or time out during the case, and no deadline may fall near the restart instant
			op.T, op.TF = 0, op.TF&^(tfMINUTE|tfWWU)
			if op.F&fUPDATE != 0 && pct(t, "pUpdTimeoutFlag") < 35 {
				// time-out flags of the core subset that mean nothing with Timeout 0 but are part of the command in force
				op.TF |= tfMINUTE
			}
			off := e.c.EpochOff
			op.EF &^= efMINUTE | efUNLIMITED | 0x1300
			switch x := pct(t, "pExpClass"); {
			case x < 12:
				op.E = rapid.SampledFrom([]int{20, 25, 30}).Draw(t, "pShort") // expires during the longer outages
				if op.E+12 > off-15 && op.E < off+25 {
					op.E = off + 60
				}
			case x < 60:
				op.E = off + rapid.SampledFrom([]int{40, 120, 600, 3000, 60000}).Draw(t, "pLong")
				if op.E > 65535 {
					op.E = 65535
				}
			case x < 80:
				op.E, op.EF = rapid.SampledFrom([]int{5, 10, 60, 1000}).Draw(t, "pMinutes"), op.EF|efMINUTE
			case x < 92:
				op.E, op.EF = rapid.IntRange(1, 0xfffe).Draw(t, "pUnlimited"), op.EF|efUNLIMITED
			default:
				op.E = 0
			}
			relive := tk != nil && tk.holder(aLockId(op.Id)) != nil // re-lock or update of a live hold
			if op.F&fSHOW != 0 && op.F&fUPDATE != 0 && tk != nil && len(tk.holders) > 0 {
				relive = true // show+update addresses the oldest holder
			}
			if pKnownShortUpd && relive {
				// known finding C07:expired-terms-record-skipped-at-load: recovery and compaction skip every record whose
				// own terms have expired, although a hold is a sequence of records. While listed, a live hold is re-locked
				// or updated only when none of its records can expire before the restarts: old and new terms both end
				// later than the outage plus a margin (or never). Otherwise the request gets a fresh LockId.
				far := func(sec int64) bool { return sec < 0 || sec > int64(off)+40 }
				ok := op.EF&efUNLIMITED != 0 || (op.EF&efMINUTE != 0 && far(int64(op.E)*60)) || (op.EF&efMINUTE == 0 && far(int64(op.E)))
				for _, h := range tk.holders {
					if h.eSec >= 0 && !far(h.deadline()-e.now) {
						ok = false
					}
				}
				if !ok {
					if op.F&fSHOW != 0 {
						op.F &^= fUPDATE
					}
					if tk.holder(aLockId(op.Id)) != nil {
						*fresh++
						op.Id = 100 + *fresh
					}
					relive = false
					pShortUpdExcluded++
				}
			}
			if pKnownUpdCreate && op.F&fUPDATE != 0 && !relive {
				// known finding C07:compaction-drops-creating-record-with-update-flag: a hold created by a request that carried
				// the update flag loses its creating record at the next compaction once its terms changed (depth is lost)
				op.F &^= fUPDATE
				pUpdCreateExcluded++
			}
			if pKnownUpdCount && relive && op.F&fUPDATE != 0 {
				// known finding C07:superseded-update-record-dropped-by-compaction: only the last update record of a hold
				// survives a compaction, so holders admitted under intermediate terms (a Count raised and lowered again)
				// are refused when the log is replayed. While listed, an update keeps the Count and Rcount of its hold.
				h := tk.holder(aLockId(op.Id))
				if h == nil && len(tk.holders) > 0 {
					h = tk.holders[0]
				}
				if h != nil && (op.Cnt != h.count || op.Rc != h.rcount) {
					op.Cnt, op.Rc = h.count, h.rcount
					pUpdCountExcluded++
				}
			}
			atGrant := func(h *mHold) bool { // was the hold written to the log when it was granted?
				// (a hold granted next to other holders is not logged at its grant whatever its flags)
				return h.first && (h.grantEf&0x1300 == 0x0100 || (h.grantEf&0x1300 == 0 && e.c.AofTime == 0))
			}
			if pKnownUpdCreate && relive && op.F&fUPDATE != 0 {
				// same known finding, second trigger: a hold that is updated before its first record is written gets a
				// creating record that carries the update flag (the sweep logs the command in force)
				for _, h := range tk.holders {
					if !atGrant(h) {
						op.F &^= fUPDATE
						pUpdCreateExcluded++
						break
					}
				}
			}
			if (pKnownLateOrder || pKnownLateDepth) && relive {
				// known findings C07:delayed-persistence-logs-later-terms-before-earlier-grant and
				// C07:depth-lost-when-persisted-after-relock: holds whose first record is written by the sweep are logged
				// with the terms and depth in force at that time, in sweep order, not grant order (a holder admitted
				// earlier is refused at replay, or the depth is rebuilt wrong). While either is listed, a live hold is
				// re-locked / updated only if every holder of the key was logged when it was granted; otherwise the
				// request gets a fresh LockId.
				all := true
				for _, h := range tk.holders {
					all = all && atGrant(h)
				}
				if len(tk.holders) == 1 && tk.holders[0].first {
					all = true // a sole holder: no order between holders; its re-locks carry no aof timing flag (below)
				}
				if !all {
					if op.F&fSHOW != 0 {
						op.F &^= fUPDATE
					}
					if tk.holder(aLockId(op.Id)) != nil {
						*fresh++
						op.Id = 100 + *fresh
					}
					relive = false
					pLateOrderExcluded++
				}
			}
			if pKnownOldest && tk != nil && len(tk.holders) > 0 && !relive && op.Cnt != tk.holders[0].count {
				// known finding C07:live-hold-refused-at-replay-after-older-holder-expired: the replay re-admits every
				// hold under the Count of the oldest holder that is left. While listed, holders of one key use one Count.
				op.Cnt = tk.holders[0].count
				pOldestExcluded++
			}
			stripAof := false
			if pKnownLateDepth && relive {
				// known finding C07:depth-lost-when-persisted-after-relock: a hold that is first persisted through the
				// update path (a re-lock / update carrying an aof timing flag) after it was re-locked gets a single
				// record. While listed, re-locks and updates of a hold that was not persisted at its grant carry no aof
				// timing flag (the sweep then persists it with one record per level).
				for _, h := range tk.holders {
					if !atGrant(h) {
						stripAof = true
					}
				}
				if stripAof {
					pLateDepthExcluded++
				}
			}
			switch x := pct(t, "pAofFlag"); {
			case stripAof:
			case x < 35:
				op.EF |= 0x0100
			case x < 45:
				op.EF |= 0x0200
			case x < 50:
				op.EF |= 0x1000
			}
		}
		return []aOp{op}
	}
	// UNLOCK
	op := aOp{K: "unlock", C: client, Db: db, Key: key}
	op.Id = pickId("unlockId", 62, 10)
	x := pct(t, "rcountU")
	switch {
	case x < 55:
		op.Rc = 0
	case x < 90:
		op.Rc = 1
	default:
		op.Rc = rapid.IntRange(0, 255).Draw(t, "rcountUAny")
	}
	if tk != nil {
		if h := tk.holder(aLockId(op.Id)); h != nil && h.depth > 1 && pct(t, "oneLevel") < 55 {
			op.Rc = 1 // release one level of a re-entrant hold
		}
	}
	x = pct(t, "unlockFlags")
	switch {
	case x < 9:
		op.F |= ufFIRST
	case x < 20:
		op.F |= ufCANCEL
	case x < 23:
		op.F |= ufFIRST | ufCANCEL
	}
	if pct(t, "unlockPrioFlag") < 3 {
		op.TF |= tfPRIO
	}
	if pct(t, "unlockVal") < p.values && !p.persist {
		op.V = aGenValue(t, tk, key)
	}
	return []aOp{op}
}

// aGenBurst queues many waiters (or admits many holders) on one key so that the wait queue migrates
// fast slice -> ring -> priority ring and the holder list crosses the switch to the map-backed queue.
func aGenBurst(t *rapid.T, e *aEnv, db, key int, fresh *int) []aOp {
	n := rapid.SampledFrom([]int{9, 12, 20, 70, 135, 140}).Draw(t, "burstN")
	holders := pct(t, "burstHolders") < 40
	if holders && pct(t, "burstHuge") < 50 {
		// the holder queue switches to its map-indexed overflow part once the in-line slice (6,12,..,192) is full
		n = rapid.SampledFrom([]int{200, 230, 260}).Draw(t, "burstHugeN")
	}
	mixedPrio := pct(t, "burstPrio") < 50
	latePrio, floodCancel, floodDrain := false, false, false
	if !holders && pct(t, "burstFlood") < 30 {
		// FIFO waiters beyond the in-line part of the wait container, then a waiter with a priority: the container
		// is rebuilt as a priority queue
		n = rapid.SampledFrom([]int{150, 270, 300}).Draw(t, "burstFloodN")
		fk := pct(t, "burstFloodKind")
		mixedPrio, latePrio = false, fk < 35
		floodCancel = fk >= 35 && fk < 65
		floodDrain = fk >= 65
		if floodDrain {
			n = rapid.SampledFrom([]int{262, 270, 300, 330}).Draw(t, "burstFloodDrainN")
		}
	}
	var ops []aOp
	for i := 0; i < n; i++ {
		*fresh++
		op := aOp{K: "lock", C: i % len(e.clients), Db: db, Key: key, Id: 100 + *fresh}
		if holders {
			op.Cnt, op.T, op.E = 0xffff, 0, rapid.SampledFrom([]int{3, 20, 50}).Draw(t, "burstE")
		} else {
			op.Cnt, op.T, op.E = rapid.SampledFrom([]int{0, 0, 1, 2}).Draw(t, "burstCount"), rapid.SampledFrom([]int{2, 5, 12, 40}).Draw(t, "burstT"), 5
			if floodDrain {
				op.Cnt, op.T, op.E = 0, 600, 600
			}
			if (mixedPrio && i%3 == 0) || (latePrio && i >= n-3) {
				op.TF |= tfPRIO
				op.Rc = rapid.IntRange(0, 3).Draw(t, "burstPrioV")
			}
		}
		ops = append(ops, op)
	}
	if floodDrain {
		// the in-line part of the FIFO wait container (256 slots) is served completely while requests are still queued in
		// its overflow ring, then a new request arrives: it must not be served before those. The key's oldest holder is
		// released again and again (unlock-first), each release grants the head of the queue.
		unlockFirst := func() aOp { *fresh++; return aOp{K: "unlock", C: 0, Db: db, Key: key, Id: 100 + *fresh, F: ufFIRST} }
		served := rapid.SampledFrom([]int{255, 256, 257, 258, 260}).Draw(t, "floodServed")
		for i := 0; i < served; i++ {
			ops = append(ops, unlockFirst())
		}
		for i := rapid.IntRange(1, 3).Draw(t, "floodLate"); i > 0; i-- {
			*fresh++
			ops = append(ops, aOp{K: "lock", C: i % len(e.clients), Db: db, Key: key, Id: 100 + *fresh, Cnt: 0, T: 600, E: 600})
			if pct(t, "floodLateServe") < 50 {
				ops = append(ops, unlockFirst())
			}
		}
		for i := rapid.IntRange(3, n-served+6).Draw(t, "floodRest"); i > 0; i-- {
			ops = append(ops, unlockFirst())
		}
		return ops
	}
	if floodCancel {
		// cancel-wait unlocks for waiters of the in-line part and of the overflow ring of the FIFO wait container
		for _, i := range []int{n - 5, rapid.IntRange(145, n-1).Draw(t, "floodCancelIdx"), rapid.IntRange(0, 140).Draw(t, "floodCancelIdxLow")} {
			ops = append(ops, aOp{K: "unlock", C: 0, Db: db, Key: key, Id: ops[i].Id, F: ufCANCEL})
		}
		return ops
	}
	if holders && n >= 200 && pct(t, "burstDrainHead") < 35 {
		// release the holders in grant order until holders of the map-backed overflow part have been promoted to the
		// head, release a promoted one, and lock with its id again (its index entry must be gone by then)
		keep := rapid.IntRange(5, 40).Draw(t, "burstKeep")
		for i := 0; i < n-keep; i++ {
			ops = append(ops, aOp{K: "unlock", C: 0, Db: db, Key: key, Id: ops[i].Id})
		}
		for i := rapid.IntRange(1, 3).Draw(t, "burstPromoted"); i > 0 && keep-i >= 0; i-- {
			victim := ops[n-keep+i-1]
			ops = append(ops, aOp{K: "unlock", C: 0, Db: db, Key: key, Id: victim.Id})
			ops = append(ops, aOp{K: "lock", C: 0, Db: db, Key: key, Id: victim.Id, Cnt: 0xffff, E: rapid.SampledFrom([]int{3, 30}).Draw(t, "burstRelockE")})
			if pct(t, "burstDupUnlock") < 40 {
				ops = append(ops, aOp{K: "unlock", C: 0, Db: db, Key: key, Id: victim.Id})
				ops = append(ops, aOp{K: "unlock", C: 0, Db: db, Key: key, Id: victim.Id})
			}
		}
		return ops
	}
	if holders && n > 130 {
		// release holds that sit in the map-backed part of the holder queue (not at its head), unlock them again
		// and try to lock with their ids again
		for i := rapid.IntRange(1, 4).Draw(t, "burstRelease"); i > 0; i-- {
			victim := ops[rapid.IntRange(n-30, n-1).Draw(t, "burstVictim")]
			ops = append(ops, aOp{K: "unlock", C: 0, Db: db, Key: key, Id: victim.Id})
			ops = append(ops, aOp{K: "unlock", C: 0, Db: db, Key: key, Id: victim.Id})
			if pct(t, "burstRelock") < 50 {
				ops = append(ops, aOp{K: "lock", C: 0, Db: db, Key: key, Id: victim.Id, Cnt: 0xffff, E: 30})
			}
		}
	}
	return ops
}

// aGenLongWaitScenario: waits long enough to reach the long-wait table (> 8 re-checks, ~45 s) that leave it
// again by cancel or grant, several times on one key, so that long-wait queues are recycled.
func aGenLongWaitScenario(t *rapid.T, e *aEnv, db, key int, fresh *int) []aOp {
	id := func() int { *fresh++; return 100 + *fresh }
	long := func() int { return rapid.SampledFrom([]int{70, 100, 100, 150, 200}).Draw(t, "lwT") }
	step := func() aOp {
		return aOp{K: "tick", N: rapid.SampledFrom([]int{46, 47, 50, 60}).Draw(t, "lwTick"), J: pct(t, "lwJump") < 20}
	}
	h := id()
	ops := []aOp{{K: "lock", Db: db, Key: key, Id: h, Cnt: 0, E: 3600}}
	holder := h
	for round := rapid.IntRange(2, 4).Draw(t, "lwRounds"); round > 0; round-- {
		w := id()
		ops = append(ops, aOp{K: "lock", C: 1, Db: db, Key: key, Id: w, Cnt: 0, T: long(), E: 3600})
		if pct(t, "lwSecond") < 50 {
			ops = append(ops, aOp{K: "lock", C: 1, Db: db, Key: key, Id: id(), Cnt: 0, T: long() + 60, E: 3600})
		}
		ops = append(ops, step())
		switch pct(t, "lwLeave") % 3 {
		case 0:
			ops = append(ops, aOp{K: "unlock", Db: db, Key: key, Id: w, F: ufCANCEL})
		case 1:
			ops = append(ops, aOp{K: "unlock", Db: db, Key: key, Id: holder})
			holder = w
		default:
		}
	}
	ops = append(ops, step(), step())
	return ops
}

// aGenPrioDrainScenario: a wait queue in priority mode whose highest priority level is drained completely while lower
// levels stay queued, then newcomers with priorities between the live maximum and the drained one (they may pass the
// queue only if their priority exceeds every queued one; an admissible request must not stay at the head), mixed Counts.
func aGenPrioDrainScenario(t *rapid.T, e *aEnv, db, key int, fresh *int) []aOp {
	id := func() int { *fresh++; return 100 + *fresh }
	cnt := rapid.SampledFrom([]int{1, 1, 2, 3}).Draw(t, "pdCount")
	hi := rapid.SampledFrom([]int{5, 9, 200, 255}).Draw(t, "pdHigh")
	lo := rapid.SampledFrom([]int{0, 0, 1, 2}).Draw(t, "pdLow")
	h := id()
	ops := []aOp{{K: "lock", Db: db, Key: key, Id: h, Cnt: rapid.SampledFrom([]int{0, cnt}).Draw(t, "pdHolderCount"), E: 600}}
	nLow := rapid.IntRange(1, 3).Draw(t, "pdLowN")
	for i := 0; i < nLow; i++ {
		op := aOp{K: "lock", C: 1 % len(e.clients), Db: db, Key: key, Id: id(), Cnt: rapid.SampledFrom([]int{0, 0, cnt}).Draw(t, "pdLowCount"), T: 600, E: 600}
		if lo > 0 || pct(t, "pdLowFlag") < 50 {
			op.TF, op.Rc = tfPRIO, lo
		}
		ops = append(ops, op)
	}
	nHigh := rapid.IntRange(1, 3).Draw(t, "pdHighN")
	for i := 0; i < nHigh; i++ {
		ops = append(ops, aOp{K: "lock", C: 2 % len(e.clients), Db: db, Key: key, Id: id(), Cnt: cnt, T: 600, E: 600, TF: tfPRIO, Rc: hi})
	}
	// the holder leaves: the high level is served (as far as the Counts admit)
	ops = append(ops, aOp{K: "unlock", Db: db, Key: key, Id: h})
	for i := rapid.IntRange(1, 4).Draw(t, "pdNew"); i > 0; i-- {
		mid := lo + 1
		if hi-1 > lo+1 {
			mid = rapid.IntRange(lo+1, hi-1).Draw(t, "pdMid")
		}
		switch pct(t, "pdNewKind") % 4 {
		case 0:
			mid = hi
		case 1:
			mid = lo
		}
		ops = append(ops, aOp{K: "lock", C: i % len(e.clients), Db: db, Key: key, Id: id(), Cnt: rapid.SampledFrom([]int{cnt, cnt, 0, 0xffff}).Draw(t, "pdNewCount"), T: rapid.SampledFrom([]int{0, 600}).Draw(t, "pdNewT"), E: 600, TF: tfPRIO, Rc: mid})
		if pct(t, "pdUnlockBetween") < 40 {
			*fresh++
			ops = append(ops, aOp{K: "unlock", Db: db, Key: key, Id: 100 + *fresh, F: ufFIRST})
		}
	}
	return ops
}

// aGenLongExpiryScenario: several holds that share one entry of the long expiry table (same shard, same deadline second:
// filed there directly with the zero-aof-time flag and an expiry > 5 s, or after > 8 re-checks of the wheel, ~45 s), of
// which some leave before the deadline (unlock, or an update / re-lock that moves the deadline) - the others must still
// expire on time and free their capacity.
func aGenLongExpiryScenario(t *rapid.T, e *aEnv, db, key int, fresh *int) []aOp {
	id := func() int { *fresh++; return 100 + *fresh }
	n := rapid.IntRange(2, 6).Draw(t, "lxHolds")
	direct := pct(t, "lxDirect") < 70
	exp := rapid.SampledFrom([]int{6, 7, 10, 20}).Draw(t, "lxExpiry")
	ef := 0x0100
	if !direct {
		exp, ef = rapid.SampledFrom([]int{50, 55, 60, 90}).Draw(t, "lxExpiryLong"), rapid.SampledFrom([]int{0, 0x0100}).Draw(t, "lxFlag")
	}
	spread := pct(t, "lxSpread") < 40 // some of the holds on a second key (same shard or not: drawn by the key hash)
	var ops []aOp
	type held struct{ key, id int }
	var hs []held
	for i := 0; i < n; i++ {
		k := key
		if spread && i%2 == 1 {
			k = key + 1
		}
		h := held{k, id()}
		hs = append(hs, h)
		ops = append(ops, aOp{K: "lock", C: i % 2, Db: db, Key: k, Id: h.id, Cnt: 0xffff, E: exp, EF: ef})
	}
	if !direct {
		ops = append(ops, aOp{K: "tick", N: rapid.SampledFrom([]int{38, 40, 46}).Draw(t, "lxAge")})
	} else if pct(t, "lxPause") < 50 {
		ops = append(ops, aOp{K: "tick", N: rapid.IntRange(1, 3).Draw(t, "lxPauseN")})
	}
	// holes: mostly among the holds filed first
	for i := 0; i < n-1; i++ {
		x := pct(t, "lxLeave")
		if i > 0 {
			x += 35
		}
		switch {
		case x < 45:
			ops = append(ops, aOp{K: "unlock", C: i % 2, Db: db, Key: hs[i].key, Id: hs[i].id})
		case x < 60:
			ops = append(ops, aOp{K: "lock", C: i % 2, Db: db, Key: hs[i].key, Id: hs[i].id, Cnt: 0xffff, F: fUPDATE, E: exp + rapid.IntRange(3, 30).Draw(t, "lxUpd"), EF: ef})
		}
	}
	// a request that needs the capacity the expiring holds occupy, then time beyond the deadline
	ops = append(ops, aOp{K: "lock", C: 2, Db: db, Key: key, Id: id(), Cnt: 0, T: 120, E: 30})
	left := exp + 3
	for left > 0 {
		st := rapid.SampledFrom([]int{1, 2, 3, 5, 9}).Draw(t, "lxStep")
		ops = append(ops, aOp{K: "tick", N: st, J: pct(t, "lxJump") < 15})
		left -= st
	}
	return ops
}

// aGenReentrantBurst re-locks one LockId many times (Rcount 0xff) so that the depth reaches the 0xff ceiling,
// then releases some levels one by one.
func aGenReentrantBurst(t *rapid.T, e *aEnv, db, key int, fresh *int) []aOp {
	*fresh++
	id := 100 + *fresh
	n := rapid.SampledFrom([]int{5, 20, 254, 255, 256, 258}).Draw(t, "reBurstN")
	cnt := rapid.SampledFrom([]int{0, 3, 0xffff}).Draw(t, "reBurstCount")
	var ops []aOp
	for i := 0; i < n; i++ {
		ops = append(ops, aOp{K: "lock", C: 0, Db: db, Key: key, Id: id, Cnt: cnt, Rc: 0xff, E: 90, T: 0})
	}
	for i := rapid.IntRange(0, 3).Draw(t, "reBurstUnlocks"); i > 0; i-- {
		ops = append(ops, aOp{K: "unlock", C: 0, Db: db, Key: key, Id: id, Rc: 1})
	}
	return ops
}

// ---------------------------------------------------------------------------------------------

type aOutcome struct {
	info  aInfo
	viol  *aViolation
	hist  string
	panic string
}

func aSafe(_ *aEnv, f func()) (msg string) {
	defer func() {
		if r := recover(); r != nil {
			msg = fmt.Sprintf("panic: %v\n%s", r, vRepoFrames())
		}
	}()
	f()
	return ""
}

// aExec runs a case. Only calls into the code under test are wrapped in recover(): the rapid draws
// inside next() must keep their own control-flow panics.
func aExec(c *aCase, next func(e *aEnv) []aOp) (out aOutcome) {
	e, err := aNewEnv(c)
	if err != nil {
		out.panic = "cannot create instance: " + err.Error()
		return
	}
	defer func() {
		if out.panic == "" {
			e.close()
		} // after a panic mutexes may be left locked: abandon the instance
	}()
	fail := func(msg string) aOutcome {
		out.panic, out.hist, out.info = msg, e.history(), e.mon.info
		return out
	}
	for !e.mon.stop {
		ops := next(e)
		if ops == nil {
			break
		}
		for _, op := range ops {
			if e.mon.stop {
				break
			}
			if msg := aSafe(e, func() { e.apply(op) }); msg != "" {
				return fail(msg)
			}
		}
	}
	if !e.mon.stop {
		e.logf("--- drain")
		msg := aSafe(e, func() {
			for _, op := range e.mon.drainOps() {
				if e.mon.stop {
					break
				}
				e.apply(op)
			}
			if !e.mon.stop {
				e.apply(aOp{K: "tick", N: 24})
			}
			e.mon.afterDrain()
		})
		if msg != "" {
			return fail(msg)
		}
	}
	out.info = e.mon.info
	out.viol = e.mon.verdict()
	if out.viol != nil {
		out.hist = e.history()
	}
	return
}

func aReplay(c *aCase) aOutcome {
	i := 0
	return aExec(c, func(e *aEnv) []aOp {
		if i >= len(c.Ops) {
			return nil
		}
		i++
		return c.Ops[i-1 : i]
	})
}

func aClasses(prop string, in aInfo) (bool, []string) {
	var cls []string
	add := func(b bool, s string) {
		if b {
			cls = append(cls, s)
		}
	}
	add(in.grantsWhileHeld > 0, "grant while another hold outstanding")
	add(in.capacityRefusals > 0, "request queued/refused because of capacity")
	add(in.reentrantOK > 0, "re-entrant success")
	add(in.refusedUnlocks > 0, "refused unlock")
	add(in.asyncReplies > 0, "asynchronous reply")
	add(in.queueGrants > 0, "grant from the wait queue")
	add(in.timeouts > 0, "TIMEOUT reply")
	add(in.timeoutsLongTbl > 0, "TIMEOUT of a wait > 9 s (long-wait table)")
	add(in.floodLate > 0, "request queued behind the overflow part of a wait queue whose first 256 entries had been served")
	add(in.expiries > 0, "EXPRIED notice")
	add(in.expiriesLongTbl > 0, "EXPRIED of a hold in the long expiry table after another hold with the same deadline second had left it")
	add(in.updatesApplied > 0, "update applied")
	add(in.updates > in.updatesApplied, "update ignored")
	add(in.cancels > 0, "cancel-wait")
	add(in.maxHolders > 128, ">128 holders (map-backed holder queue)")
	add(in.maxWaiters > 8, ">8 waiters")
	add(in.maxWaiters > 128, ">128 waiters")
	add(in.prioMixed, "mixed priorities queued")
	add(in.waitersHoldEnded > 0, "hold ended while requests were queued")
	add(in.valueOps > 0, "value operation applied")
	add(in.slowKeys > 0, "key in the slow map (fast-slot collision)")
	add(in.wwu > 0, "wait-when-unlocked waiter")
	for a := range in.anomalies {
		cls = append(cls, "anomaly: "+a)
	}
	ends := len(in.holdEndKinds)
	if in.timeouts > 0 {
		ends++
	}
	if in.cancels > 0 {
		ends++
	}
	if in.queueGrants > 0 {
		ends++
	}
	nt := false
	switch prop {
	case "C01":
		nt = in.grantsWhileHeld > 0 || in.capacityRefusals > 0
	case "C02":
		nt = in.reentrantOK > 0 && in.refusedUnlocks > 0
	case "C03":
		nt = in.asyncReplies > 0
	case "C04":
		nt = in.maxWaiters >= 2 && in.waitersHoldEnded > 0
	case "C05":
		nt = in.timeouts > 0 && (in.timeoutsLongTbl > 0 || in.maxWaiters >= 2)
	case "C06":
		nt = in.expiries > 0 && (in.waitersHoldEnded > 0 || in.updatesApplied > 0)
	case "C15":
		nt = in.valueOps >= 3 && len(in.valueKinds) >= 2 && in.valueRefused > 0
	case "C17":
		nt = ends >= 3
	}
	return nt, cls
}

func aProp(test string, prop string) func(t *rapid.T) {
	st := vstat(test)
	p := aProfiles[prop]
	return func(t *rapid.T) {
		c := &aCase{Prop: prop}
		c.Conc = rapid.SampledFrom([]int{1, 2, 2, 4}).Draw(t, "conc")
		c.FastKeys = rapid.SampledFrom([]int{1, 4, 64, 64}).Draw(t, "fastKeys")
		c.AofTime = rapid.SampledFrom([]int{0, 1}).Draw(t, "aofTime")
		c.Clients = rapid.IntRange(1, 4).Draw(t, "clients")
		n := rapid.IntRange(3, 70).Draw(t, "nOps")
		fresh := 0
		out := aExec(c, func(e *aEnv) []aOp {
			if len(c.Ops) >= n {
				return nil
			}
			ops := aGenOps(t, e, p, &fresh)
			c.Ops = append(c.Ops, ops...)
			return ops
		})
		nt, cls := aClasses(prop, out.info)
		st.Case(nt, c.fingerprint(), cls, func() interface{} { return c })
		for i := 0; i < out.info.staleWakeSkips; i++ {
			st.Exclude("C04 head-admissibility check skipped after a waiter left the queue by timeout/cancel (known finding " + aKeyNoWake + ")")
		}
		if out.panic != "" {
			vFail(t, test, prop+":engineA:panic", c, "%s\n%s", out.panic, out.hist)
		}
		if out.viol != nil {
			vFail(t, test, prop+":engineA:"+aViolKey(out.viol.Msg), c, "[%s] %s\n--- history ---\n%s", out.viol.Props, out.viol.Msg, out.hist)
		}
	}
}

// aViolKey derives a stable failure-class key from a violation message (digits and hex ids removed).
func aViolKey(msg string) string {
	out := make([]byte, 0, 48)
	for i := 0; i < len(msg) && len(out) < 48; i++ {
		ch := msg[i]
		switch {
		case ch >= 'a' && ch <= 'z' || ch >= 'A' && ch <= 'Z':
			out = append(out, ch)
		case ch == ' ' || ch == '-' || ch == '_':
			if len(out) > 0 && out[len(out)-1] != '-' {
				out = append(out, '-')
			}
		}
	}
	return string(out)
}

func aReplayTest(t *testing.T, prop string) {
	for _, f := range vReplayFiles(prop) {
		var c aCase
		key, err := vLoadReplay(f, &c)
		if err != nil {
			t.Fatalf("cannot load replay %s: %v", f, err)
		}
		if c.Ops == nil {
			continue // not an engine-A case
		}
		c.Prop = prop
		saved := aKnownNoWake
		aKnownNoWake = false // replays decide whether a listed finding still reproduces: no tolerance here
		out := aReplay(&c)
		aKnownNoWake = saved
		msg := ""
		if out.panic != "" {
			msg = out.panic
		} else if out.viol != nil {
			msg = out.viol.Msg
		}
		fmt.Printf("VERIF-KF key=%s reproduced=%v file=%s %s\n", key, msg != "", f, msg)
		if msg != "" && testing.Verbose() {
			fmt.Println(out.hist)
		}
	}
}

func TestC01_EngineA(t *testing.T) { rapid.Check(t, aProp("TestC01_EngineA", "C01")) }
func TestC02_EngineA(t *testing.T) { rapid.Check(t, aProp("TestC02_EngineA", "C02")) }
func TestC03_EngineA(t *testing.T) { rapid.Check(t, aProp("TestC03_EngineA", "C03")) }
func TestC04_EngineA(t *testing.T) { rapid.Check(t, aProp("TestC04_EngineA", "C04")) }
func TestC05_EngineA(t *testing.T) { rapid.Check(t, aProp("TestC05_EngineA", "C05")) }
func TestC06_EngineA(t *testing.T) { rapid.Check(t, aProp("TestC06_EngineA", "C06")) }
func TestC15_EngineA(t *testing.T) { rapid.Check(t, aProp("TestC15_EngineA", "C15")) }
func TestC17_EngineA(t *testing.T) { rapid.Check(t, aProp("TestC17_EngineA", "C17")) }

func TestC01_Replay(t *testing.T) { aReplayTest(t, "C01") }
func TestC02_Replay(t *testing.T) { aReplayTest(t, "C02") }
func TestC03_Replay(t *testing.T) { aReplayTest(t, "C03") }
func TestC04_Replay(t *testing.T) { aReplayTest(t, "C04") }
func TestC05_Replay(t *testing.T) { aReplayTest(t, "C05") }
func TestC06_Replay(t *testing.T) { aReplayTest(t, "C06") }
func TestC17_Replay(t *testing.T) { aReplayTest(t, "C17") }

// TestCAll_EngineA runs the engine with every monitor deciding (development aid).
func TestCAll_EngineA(t *testing.T) {
	aProfiles["*"] = aProfile{prop: "*", values: 15, timers: 20, bursts: true, prioBias: 10, updBias: 10, longTimes: true}
	rapid.Check(t, aProp("TestCAll_EngineA", "*"))
}
