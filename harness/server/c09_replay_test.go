package server

import (
	"encoding/json"
	"fmt"
	"os"
	"testing"
)

// TestC09_Replay re-executes committed / freshly found C09 cases without rapid. The case's "kind"
// selects the executor: "ring" (pure ReplicationBufferQueue model) or "cluster" (engine N).
func TestC09_Replay(t *testing.T) {
	for _, f := range vReplayFiles("C09") {
		var raw json.RawMessage
		key, err := vLoadReplay(f, &raw)
		if err != nil {
			t.Fatalf("cannot load replay %s: %v", f, err)
		}
		var kind struct {
			Kind string `json:"kind"`
		}
		_ = json.Unmarshal(raw, &kind)
		var rerr error
		got := ""
		switch kind.Kind {
		case "ring":
			var c n09RCase
			if err = json.Unmarshal(raw, &c); err != nil {
				t.Fatalf("replay %s: %v", f, err)
			}
			_, rerr = n09GuardRing(&c)
		case "cluster":
			var c n09Case
			if err = json.Unmarshal(raw, &c); err != nil {
				t.Fatalf("replay %s: %v", f, err)
			}
			// real sockets and goroutines: inputs replay, schedules do not - try a few times
			tries := vEnvInt("VERIF_REPLAY_TRIES", 40)
			n09ReplayMode = true
			for i := 0; i < tries && rerr == nil; i++ {
				out := n09RunCluster(&c)
				if out.inconclusive != "" {
					fmt.Printf("VERIF-NOTE replay %s inconclusive: %s\n", f, out.inconclusive)
					continue
				}
				rerr = out.err
				got = " observed-key=" + out.key
			}
			n09ReplayMode = false
		default:
			t.Fatalf("replay %s: unknown kind %q", f, kind.Kind)
		}
		fmt.Printf("VERIF-KF key=%s reproduced=%v file=%s%s %v\n", key, rerr != nil, f, got, rerr)
	}
	_ = os.Stdout.Sync()
}
